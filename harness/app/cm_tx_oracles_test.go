package app

// Oracles C06 (signer / touches only what it names), C07 (determinism), C16 (events).

import (
	"bytes"
	"crypto/x509"
	"encoding/binary"
	"encoding/pem"
	"fmt"
	"math/big"
	"sort"
	"strconv"
	"strings"
	"testing"
	"time"

	sdk "github.com/cosmos/cosmos-sdk/types"
	abci "github.com/tendermint/tendermint/abci/types"

	"github.com/ovrclk/akash/sdkutil"
	atypes "github.com/ovrclk/akash/x/audit/types"
	ctypes "github.com/ovrclk/akash/x/cert/types"
	dtypes "github.com/ovrclk/akash/x/deployment/types"
	etypes "github.com/ovrclk/akash/x/escrow/types"
	mtypes "github.com/ovrclk/akash/x/market/types"
	ptypes "github.com/ovrclk/akash/x/provider/types"
)

// ------------------------------------------------------------------ C06

type cmC06 struct {
	cmBaseOracle
	colliding bool
}

const c06Rule = "transaction executed while one owner holds >=2 deployments whose sequence numbers come from the prefix-colliding set {1,2,12,256,257,65536,2^32,2^64-1}; every message type; plus wrongly-signed twins"

// c06Expected is the table written from the property statement.
func (o *cmC06) expectedSigner(msg sdk.Msg) (string, string) {
	switch x := msg.(type) {
	case *dtypes.MsgCreateDeployment:
		return cmNormAddr(x.ID.Owner), "tenant"
	case *dtypes.MsgDepositDeployment:
		return cmNormAddr(x.ID.Owner), "tenant"
	case *dtypes.MsgUpdateDeployment:
		return cmNormAddr(x.ID.Owner), "tenant"
	case *dtypes.MsgCloseDeployment:
		return cmNormAddr(x.ID.Owner), "tenant"
	case *dtypes.MsgCloseGroup:
		return cmNormAddr(x.ID.Owner), "tenant"
	case *dtypes.MsgPauseGroup:
		return cmNormAddr(x.ID.Owner), "tenant"
	case *dtypes.MsgStartGroup:
		return cmNormAddr(x.ID.Owner), "tenant"
	case *mtypes.MsgCreateLease:
		return cmNormAddr(x.BidID.Owner), "tenant"
	case *mtypes.MsgCloseLease:
		return cmNormAddr(x.LeaseID.Owner), "tenant"
	case *mtypes.MsgCreateBid:
		return cmNormAddr(x.Provider), "provider"
	case *mtypes.MsgCloseBid:
		return x.BidID.Provider, "provider"
	case *mtypes.MsgWithdrawLease:
		return x.LeaseID.Provider, "provider"
	case *ptypes.MsgCreateProvider:
		return x.Owner, "provider"
	case *ptypes.MsgUpdateProvider:
		return x.Owner, "provider"
	case *ptypes.MsgDeleteProvider:
		return x.Owner, "provider"
	case *atypes.MsgSignProviderAttributes:
		return x.Auditor, "auditor"
	case *atypes.MsgDeleteProviderAttributes:
		return x.Auditor, "auditor"
	case *ctypes.MsgCreateCertificate:
		return x.Owner, "certificate owner"
	case *ctypes.MsgRevokeCertificate:
		return x.ID.Owner, "certificate owner"
	}
	return "", ""
}

// scope of a message: which records it may change.
type c06Scope struct {
	kind    string // deployment | provider | audit | cert
	owner   string
	dseq    uint64
	auditor string
	serial  *big.Int
}

func (o *cmC06) scope(msg sdk.Msg) c06Scope {
	dep := func(owner string, dseq uint64) c06Scope {
		return c06Scope{kind: "deployment", owner: owner, dseq: dseq}
	}
	switch x := msg.(type) {
	case *dtypes.MsgCreateDeployment:
		return dep(x.ID.Owner, x.ID.DSeq)
	case *dtypes.MsgDepositDeployment:
		return dep(x.ID.Owner, x.ID.DSeq)
	case *dtypes.MsgUpdateDeployment:
		return dep(x.ID.Owner, x.ID.DSeq)
	case *dtypes.MsgCloseDeployment:
		return dep(x.ID.Owner, x.ID.DSeq)
	case *dtypes.MsgCloseGroup:
		return dep(x.ID.Owner, x.ID.DSeq)
	case *dtypes.MsgPauseGroup:
		return dep(x.ID.Owner, x.ID.DSeq)
	case *dtypes.MsgStartGroup:
		return dep(x.ID.Owner, x.ID.DSeq)
	case *mtypes.MsgCreateLease:
		return dep(x.BidID.Owner, x.BidID.DSeq)
	case *mtypes.MsgCloseLease:
		return dep(x.LeaseID.Owner, x.LeaseID.DSeq)
	case *mtypes.MsgCreateBid:
		return dep(x.Order.Owner, x.Order.DSeq)
	case *mtypes.MsgCloseBid:
		return dep(x.BidID.Owner, x.BidID.DSeq)
	case *mtypes.MsgWithdrawLease:
		return dep(x.LeaseID.Owner, x.LeaseID.DSeq)
	case *ptypes.MsgCreateProvider:
		return c06Scope{kind: "provider", owner: x.Owner}
	case *ptypes.MsgUpdateProvider:
		return c06Scope{kind: "provider", owner: x.Owner}
	case *ptypes.MsgDeleteProvider:
		return c06Scope{kind: "provider", owner: x.Owner}
	case *atypes.MsgSignProviderAttributes:
		return c06Scope{kind: "audit", owner: x.Owner, auditor: x.Auditor}
	case *atypes.MsgDeleteProviderAttributes:
		return c06Scope{kind: "audit", owner: x.Owner, auditor: x.Auditor}
	case *ctypes.MsgCreateCertificate:
		return c06Scope{kind: "cert", owner: x.Owner}
	case *ctypes.MsgRevokeCertificate:
		n, _ := new(big.Int).SetString(x.ID.Serial, 10)
		return c06Scope{kind: "cert", owner: x.ID.Owner, serial: n}
	}
	return c06Scope{}
}

type c06Ident struct {
	owner string
	dseq  uint64
}

const cmBechLen = 45 // "cosmos1" + 38

// identFromKey decodes (owner, dseq) from the documented key layout.
func c06IdentFromKey(store string, k []byte) (c06Ident, error) {
	rdOwner := func(b []byte) (string, []byte, error) {
		if len(b) < cmBechLen || !bytes.HasPrefix(b, []byte("cosmos1")) {
			return "", nil, fmt.Errorf("no bech32 owner at expected offset")
		}
		return string(b[:cmBechLen]), b[cmBechLen:], nil
	}
	switch store {
	case "deployment":
		if len(k) < 1 {
			return c06Ident{}, fmt.Errorf("empty key")
		}
		owner, rest, err := rdOwner(k[1:])
		if err != nil {
			return c06Ident{}, err
		}
		want := 8
		if k[0] == 0x02 {
			want = 12
		}
		if len(rest) != want {
			return c06Ident{}, fmt.Errorf("unexpected key length")
		}
		return c06Ident{owner, binary.BigEndian.Uint64(rest[:8])}, nil
	case "market":
		if len(k) < 2 {
			return c06Ident{}, fmt.Errorf("short key")
		}
		owner, rest, err := rdOwner(k[2:])
		if err != nil {
			return c06Ident{}, err
		}
		want := 16
		if k[0] != 0x01 {
			want = 16 + cmBechLen
		}
		if len(rest) != want {
			return c06Ident{}, fmt.Errorf("unexpected key length")
		}
		return c06Ident{owner, binary.BigEndian.Uint64(rest[:8])}, nil
	case "escrow":
		// 0x01|0x02 "/" scope "/" owner "/" dseq [ "/" ... ]
		parts := strings.Split(string(k[1:]), "/")
		if len(parts) < 4 || parts[0] != "" {
			return c06Ident{}, fmt.Errorf("unexpected escrow key %q", k)
		}
		d, err := strconv.ParseUint(parts[3], 10, 64)
		if err != nil {
			return c06Ident{}, err
		}
		return c06Ident{parts[2], d}, nil
	}
	return c06Ident{}, fmt.Errorf("store %s has no (owner,dseq) keys", store)
}

// identFromValue decodes (owner, dseq) from the ids stored inside the record.
func (m *chainMachine) c06IdentFromValue(store string, k, v []byte) (c06Ident, error) {
	cdc := m.app.appCodec
	switch store {
	case "deployment":
		if k[0] == 0x01 {
			var o dtypes.Deployment
			if err := cdc.UnmarshalBinaryBare(v, &o); err != nil {
				return c06Ident{}, err
			}
			return c06Ident{o.DeploymentID.Owner, o.DeploymentID.DSeq}, nil
		}
		var o dtypes.Group
		if err := cdc.UnmarshalBinaryBare(v, &o); err != nil {
			return c06Ident{}, err
		}
		return c06Ident{o.GroupID.Owner, o.GroupID.DSeq}, nil
	case "market":
		switch k[0] {
		case 0x01:
			var o mtypes.Order
			if err := cdc.UnmarshalBinaryBare(v, &o); err != nil {
				return c06Ident{}, err
			}
			return c06Ident{o.OrderID.Owner, o.OrderID.DSeq}, nil
		case 0x02:
			var o mtypes.Bid
			if err := cdc.UnmarshalBinaryBare(v, &o); err != nil {
				return c06Ident{}, err
			}
			return c06Ident{o.BidID.Owner, o.BidID.DSeq}, nil
		default:
			var o mtypes.Lease
			if err := cdc.UnmarshalBinaryBare(v, &o); err != nil {
				return c06Ident{}, err
			}
			return c06Ident{o.LeaseID.Owner, o.LeaseID.DSeq}, nil
		}
	case "escrow":
		var xid string
		if k[0] == 0x01 {
			var o etypes.Account
			if err := cdc.UnmarshalBinaryBare(v, &o); err != nil {
				return c06Ident{}, err
			}
			xid = o.ID.XID
		} else {
			var o etypes.Payment
			if err := cdc.UnmarshalBinaryBare(v, &o); err != nil {
				return c06Ident{}, err
			}
			xid = o.AccountID.XID
		}
		parts := strings.Split(xid, "/")
		if len(parts) < 2 {
			return c06Ident{}, fmt.Errorf("unexpected xid %q", xid)
		}
		d, err := strconv.ParseUint(parts[1], 10, 64)
		if err != nil {
			return c06Ident{}, err
		}
		return c06Ident{parts[0], d}, nil
	}
	return c06Ident{}, fmt.Errorf("unsupported store")
}

func (o *cmC06) beforeTx(m *chainMachine, msg sdk.Msg, signer *cmActor) {
	per := map[string]int{}
	for _, d := range m.snap.deployments {
		per[d.DeploymentID.Owner]++
		if per[d.DeploymentID.Owner] >= 2 {
			o.colliding = true
			m.label("executed-with-colliding-ids")
		}
	}
}

func (o *cmC06) afterTx(m *chainMachine, tx *cmTx) {
	want, role := o.expectedSigner(tx.msg)
	if want == "" {
		m.fatalf("c06-unknown-msg", "message type %T has no entry in the signer table", tx.msg)
	}
	// (a) required signer == the party the protocol assigns
	signers := tx.msg.GetSigners()
	if len(signers) != 1 || signers[0].String() != want {
		m.fatalf("c06-signer-table", "%s must be signed by the %s %s but GetSigners() = %v", tx.label, role, want, signers)
	}
	diff := cmRawDiff(tx.pre, tx.post)
	if tx.twin {
		if tx.ok {
			m.fatalf("c06-wrong-signer-accepted", "%s signed by %s (not the %s %s) was ACCEPTED", tx.label, tx.signer.name, role, want)
		}
		if len(diff) > 0 {
			m.fatalf("c06-wrong-signer-effect", "%s signed by the wrong account was rejected but changed state: %v", tx.label, diff)
		}
	} else if tx.resp.Codespace == "sdk" && (tx.resp.Code == 4 || tx.resp.Code == 8 || tx.resp.Code == 32) {
		m.fatalf("c06-right-signer-rejected", "%s signed by its required signer %s failed authentication: %s", tx.label, tx.signer.name, tx.resp.Log)
	}
	// (c) only the signer can lose coins
	for _, a := range m.actors {
		if a == tx.signer {
			continue
		}
		if tx.post.bank[a.bech].LT(tx.pre.bank[a.bech]) {
			m.fatalf("c06-third-party-debited", "%s signed by %s reduced the balance of %s from %s to %s", tx.label, tx.signer.name, a.name, tx.pre.bank[a.bech], tx.post.bank[a.bech])
		}
	}
	if !tx.ok {
		if len(diff) > 0 {
			m.fatalf("c06-failed-tx-effect", "%s failed (code %d) but changed state: %v", tx.label, tx.resp.Code, diff)
		}
		for _, a := range m.actors {
			if !tx.post.bank[a.bech].Equal(tx.pre.bank[a.bech]) {
				m.fatalf("c06-failed-tx-bank", "%s failed but changed the balance of %s", tx.label, a.name)
			}
		}
		return
	}
	o.providerScope(m, tx)
	// (b) every changed key belongs to what the message names
	sc := o.scope(tx.msg)
	preKV := map[string][]byte{}
	for _, name := range cmStores {
		for _, kv := range tx.pre.raw[name] {
			preKV[name+":"+string(kv.k)] = kv.v
		}
	}
	postKV := map[string][]byte{}
	for _, name := range cmStores {
		for _, kv := range tx.post.raw[name] {
			postKV[name+":"+string(kv.k)] = kv.v
		}
	}
	for _, name := range cmStores {
		keys := map[string]bool{}
		for _, kv := range tx.pre.raw[name] {
			keys[string(kv.k)] = true
		}
		for _, kv := range tx.post.raw[name] {
			keys[string(kv.k)] = true
		}
		var sorted []string
		for k := range keys {
			sorted = append(sorted, k)
		}
		sort.Strings(sorted)
		for _, ks := range sorted {
			pv, pok := preKV[name+":"+ks]
			nv, nok := postKV[name+":"+ks]
			if pok == nok && bytes.Equal(pv, nv) {
				continue
			}
			k := []byte(ks)
			val := nv
			if !nok {
				val = pv
			}
			bad := func(why string) {
				m.fatalf("c06-foreign-record", "%s changed %s key %X (%q): %s", tx.label, name, k, ks, why)
			}
			switch sc.kind {
			case "deployment":
				if name != "deployment" && name != "market" && name != "escrow" {
					bad("a deployment/market message may not touch this store")
				}
				ik, err := c06IdentFromKey(name, k)
				if err != nil {
					bad("key does not follow the documented layout: " + err.Error())
				}
				iv, err := m.c06IdentFromValue(name, k, val)
				if err != nil {
					bad("value does not decode: " + err.Error())
				}
				if ik != iv {
					bad(fmt.Sprintf("key says %v but the record inside says %v", ik, iv))
				}
				if ik.owner != sc.owner || ik.dseq != sc.dseq {
					bad(fmt.Sprintf("record belongs to %s/%d, message names %s/%d", m.nameOf(ik.owner), ik.dseq, m.nameOf(sc.owner), sc.dseq))
				}
			case "provider":
				addr, _ := sdk.AccAddressFromBech32(sc.owner)
				if name != "provider" || !bytes.Equal(k, addr.Bytes()) {
					bad("a provider message may change only the provider record of its owner")
				}
			case "audit":
				ow, _ := sdk.AccAddressFromBech32(sc.owner)
				au, _ := sdk.AccAddressFromBech32(sc.auditor)
				wantKey := append(append([]byte{0x01}, ow.Bytes()...), au.Bytes()...)
				if name != "audit" || !bytes.Equal(k, wantKey) {
					bad("an attestation message may change only the (provider, auditor) attestation it names")
				}
			case "cert":
				ow, _ := sdk.AccAddressFromBech32(sc.owner)
				pfx := append([]byte{0x01}, ow.Bytes()...)
				if name != "cert" || !bytes.HasPrefix(k, pfx) {
					bad("a certificate message may change only certificates of its owner")
				}
				if sc.serial != nil && !bytes.Equal(k[len(pfx):], sc.serial.Bytes()) {
					bad("revocation changed a certificate with a different serial number")
				}
			}
		}
	}
}

// c06ProviderScope: a provider-signed market message names one bid; bids, leases, bid deposits
// and payment streams of OTHER providers do not belong to it. The one legitimate cascade is the
// deployment's escrow account running dry (or being closed) inside the transaction, which
// ends everything under the deployment.
func (o *cmC06) providerScope(m *chainMachine, tx *cmTx) {
	var provider string
	var dep dtypes.DeploymentID
	switch x := tx.msg.(type) {
	case *mtypes.MsgCloseBid:
		provider, dep = x.BidID.Provider, x.BidID.DeploymentID()
	case *mtypes.MsgCreateBid:
		provider, dep = cmNormAddr(x.Provider), x.Order.GroupID().DeploymentID()
	case *mtypes.MsgWithdrawLease:
		provider, dep = x.LeaseID.Provider, x.LeaseID.DeploymentID()
	default:
		return
	}
	if a0, ok := tx.pre.account(dtypes.EscrowAccountForDeployment(dep)); ok {
		if a1, ok := tx.post.account(dtypes.EscrowAccountForDeployment(dep)); ok && a0.State == etypes.AccountOpen && a1.State != etypes.AccountOpen {
			return
		}
	}
	for _, b := range tx.post.bids {
		if b.BidID.Provider == provider {
			continue
		}
		if old, ok := tx.pre.bid(b.BidID); !ok || old.State != b.State || !old.Price.IsEqual(b.Price) {
			m.fatalf("c06-foreign-provider-record", "%s signed by %s changed bid %s of another provider (now %s)", tx.label, tx.signer.name, m.bidName(b.BidID), b.State)
		}
	}
	for _, l := range tx.post.leases {
		if l.LeaseID.Provider == provider {
			continue
		}
		if old, ok := tx.pre.lease(l.LeaseID); !ok || old.State != l.State {
			m.fatalf("c06-foreign-provider-record", "%s signed by %s changed lease %s of another provider (now %s)", tx.label, tx.signer.name, m.bidName(mtypes.BidID(l.LeaseID)), l.State)
		}
	}
	for _, p := range tx.post.payments {
		if p.Owner == provider {
			continue
		}
		if old, ok := tx.pre.payment(p.AccountID, p.PaymentID); !ok || old.State != p.State || !old.Withdrawn.IsEqual(p.Withdrawn) {
			m.fatalf("c06-foreign-provider-record", "%s signed by %s changed the payment stream %s of another provider (state %s, withdrawn %s)", tx.label, tx.signer.name, cmPayKey(p), p.State, p.Withdrawn)
		}
	}
	for _, a := range tx.post.accounts {
		if a.ID.Scope != "bid" || a.Owner == provider {
			continue
		}
		if old, ok := tx.pre.account(a.ID); !ok || old.State != a.State || !old.Balance.IsEqual(a.Balance) {
			m.fatalf("c06-foreign-provider-record", "%s signed by %s changed the bid deposit %s of another provider", tx.label, tx.signer.name, cmAccKey(a.ID))
		}
	}
}

func (m *chainMachine) nameOf(bech string) string {
	if a, ok := m.byAddr[bech]; ok {
		return a.name
	}
	return bech
}

func (o *cmC06) nontrivial(m *chainMachine) bool { return o.colliding }

var cmScopeProfile = cmProfile{weights: map[string]int{
	"deployCreate": 6, "marketRound": 4, "advance": 3, "provider": 2, "audit": 2,
	"leaseClose": 2, "bidClose": 2, "deployClose": 2, "leaseWithdraw": 2, "groupStart": 2, "groupPause": 2, "groupClose": 2,
	"cert": 2, "wrongSigner": 4, "deployDeposit": 2, "withdrawThenClose": 1, "deployUpdate": 2, "bidCreate": 2, "leaseCreate": 2,
}}

func TestVerif_C06(t *testing.T) {
	cmRun(t, "C06", c06Rule, func() cmOracle { return &cmC06{} }, cmScopeProfile, false)
}

// ------------------------------------------------------------------ C07

type cmC07 struct {
	cmBaseOracle
	interesting bool
}

const c07Rule = "transaction that merges or deletes attestations leaving >=2 attribute keys (the map-mediated path), or that changes >=4 records (hook cascades); each handler run 8x on sibling branches + a second app instance fed the same stream"

func (m *chainMachine) dumpCtx(ctx sdk.Context) []byte {
	var buf bytes.Buffer
	for _, name := range cmStores {
		it := ctx.KVStore(m.app.keys[name]).Iterator(nil, nil)
		for ; it.Valid(); it.Next() {
			buf.WriteString(name)
			buf.WriteByte(0)
			buf.Write(it.Key())
			buf.WriteByte(0)
			buf.Write(it.Value())
			buf.WriteByte(0)
		}
		it.Close()
	}
	for _, a := range m.actors {
		buf.WriteString(m.app.keeper.bank.GetBalance(ctx, a.addr, cmDenom).String())
	}
	return buf.Bytes()
}

func (o *cmC07) beforeTx(m *chainMachine, msg sdk.Msg, signer *cmActor) {
	// the legacy router of a sealed BaseApp is not reachable; the module manager holds the
	// very same sdk.Route objects that were registered into it
	var h sdk.Handler
	for _, mod := range m.app.mm.Modules {
		if r := mod.Route(); r.Path() == msg.Route() {
			h = r.Handler()
		}
	}
	if h == nil {
		m.fatalf("c07-no-route", "no handler for route %q", msg.Route())
	}
	if msg.ValidateBasic() != nil {
		return // never reaches a handler
	}
	var first []byte
	var firstDesc string
	for i := 0; i < 8; i++ {
		cctx, _ := m.ctx().CacheContext()
		cctx = cctx.WithEventManager(sdk.NewEventManager()).WithGasMeter(sdk.NewInfiniteGasMeter())
		var out bytes.Buffer
		func() {
			defer func() {
				if r := recover(); r != nil {
					fmt.Fprintf(&out, "PANIC:%v", r)
				}
			}()
			res, err := h(cctx, msg)
			if err != nil {
				fmt.Fprintf(&out, "ERR:%s|", err.Error())
			}
			if res != nil {
				out.Write(res.Data)
				out.WriteString("|" + res.Log + "|")
				for _, ev := range res.Events {
					bz, _ := ev.Marshal()
					out.Write(bz)
					out.WriteByte('|')
				}
			}
		}()
		for _, ev := range cctx.EventManager().ABCIEvents() {
			bz, _ := ev.Marshal()
			out.Write(bz)
			out.WriteByte('#')
		}
		// gas is part of the transaction result (it is hashed into the block's results hash)
		fmt.Fprintf(&out, "GAS:%d|", cctx.GasMeter().GasConsumed())
		out.WriteString("STATE:")
		out.Write(m.dumpCtx(cctx))
		if i == 0 {
			first = out.Bytes()
			firstDesc = out.String()
			// a certificate about to expire by the wall clock: let the instant pass before the
			// transaction is executed again (a node replaying the block later must agree)
			if cm, ok := msg.(*ctypes.MsgCreateCertificate); ok {
				if blk, _ := pem.Decode(cm.Cert); blk != nil {
					if c, err := x509.ParseCertificate(blk.Bytes); err == nil {
						if d := time.Until(c.NotAfter); d > -time.Second && d < 2*time.Second {
							time.Sleep(d + 1100*time.Millisecond)
							o.interesting = true
							m.label("replayed-across-wall-clock-expiry")
						}
					}
				}
			}
			continue
		}
		if !bytes.Equal(first, out.Bytes()) {
			m.fatalf("c07-nondeterministic", "executing %T twice on the same state gave different results/events/state:\nrun 0: %q\nrun %d: %q", msg, cmTrunc(firstDesc, 1500), i, cmTrunc(out.String(), 1500))
		}
	}
}

func cmTrunc(s string, n int) string {
	if len(s) > n {
		return s[:n] + "…"
	}
	return s
}

func (o *cmC07) afterTx(m *chainMachine, tx *cmTx) {
	if !tx.ok {
		return
	}
	switch msg := tx.msg.(type) {
	case *atypes.MsgSignProviderAttributes, *atypes.MsgDeleteProviderAttributes:
		var owner, auditor string
		switch x := msg.(type) {
		case *atypes.MsgSignProviderAttributes:
			owner, auditor = x.Owner, x.Auditor
		case *atypes.MsgDeleteProviderAttributes:
			owner, auditor = x.Owner, x.Auditor
		}
		hadBefore := false
		for _, a := range tx.pre.audits {
			if a.Owner == owner && a.Auditor == auditor {
				hadBefore = true
			}
		}
		for _, a := range tx.post.audits {
			if a.Owner == owner && a.Auditor == auditor && len(a.Attributes) >= 2 && hadBefore {
				o.interesting = true
				m.label("attestation-merge>=2keys")
			}
		}
	}
	if len(cmRawDiff(tx.pre, tx.post)) >= 4 {
		o.interesting = true
		m.label("cascade>=4records")
	}
}

func (o *cmC07) nontrivial(m *chainMachine) bool { return o.interesting }

var cmDetProfile = cmProfile{weights: map[string]int{
	"deployCreate": 3, "marketRound": 4, "advance": 3, "provider": 2, "audit": 10,
	"leaseClose": 2, "bidClose": 2, "deployClose": 2, "leaseWithdraw": 2, "groupStart": 1, "groupPause": 1, "groupClose": 1,
	"cert": 1, "wrongSigner": 1, "deployDeposit": 1, "withdrawThenClose": 1,
}}

func TestVerif_C07(t *testing.T) {
	cmRun(t, "C07", c07Rule, func() cmOracle { return &cmC07{} }, cmDetProfile, true)
}

// ------------------------------------------------------------------ C16

type cmC16 struct {
	cmBaseOracle
	interesting bool
}

const c16Rule = "successful transaction that changes >=2 lifecycle objects, at least one of them through a hook/cascade (an object the message does not name directly)"

// c16Parse mirrors events/publish.go processEvent.
func c16Parse(bev abci.Event) (interface{}, bool) {
	ev, err := sdkutil.ParseEvent(sdk.StringifyEvent(bev))
	if err != nil {
		return nil, false
	}
	if mev, err := dtypes.ParseEvent(ev); err == nil {
		return mev, true
	}
	if mev, err := mtypes.ParseEvent(ev); err == nil {
		return mev, true
	}
	if mev, err := ptypes.ParseEvent(ev); err == nil {
		return mev, true
	}
	if mev, err := atypes.ParseEvent(ev); err == nil {
		return mev, true
	}
	return nil, false
}

// c16Render gives a canonical rendering of a typed event (type, id, price/version).
func c16Render(ev interface{}) string {
	switch e := ev.(type) {
	case mtypes.EventOrderCreated:
		return fmt.Sprintf("order-created|%v", e.ID)
	case mtypes.EventOrderClosed:
		return fmt.Sprintf("order-closed|%v", e.ID)
	case mtypes.EventBidCreated:
		return fmt.Sprintf("bid-created|%v|%s", e.ID, e.Price.String())
	case mtypes.EventBidClosed:
		return fmt.Sprintf("bid-closed|%v|%s", e.ID, e.Price.String())
	case mtypes.EventLeaseCreated:
		return fmt.Sprintf("lease-created|%v|%s", e.ID, e.Price.String())
	case mtypes.EventLeaseClosed:
		return fmt.Sprintf("lease-closed|%v|%s", e.ID, e.Price.String())
	case dtypes.EventDeploymentCreated:
		return fmt.Sprintf("deployment-created|%v|%x", e.ID, e.Version)
	case dtypes.EventDeploymentUpdated:
		return fmt.Sprintf("deployment-updated|%v|%x", e.ID, e.Version)
	case dtypes.EventDeploymentClosed:
		return fmt.Sprintf("deployment-closed|%v", e.ID)
	case dtypes.EventGroupClosed:
		return fmt.Sprintf("group-closed|%v", e.ID)
	case dtypes.EventGroupPaused:
		return fmt.Sprintf("group-paused|%v", e.ID)
	case dtypes.EventGroupStarted:
		return fmt.Sprintf("group-started|%v", e.ID)
	case ptypes.EventProviderCreated:
		return fmt.Sprintf("provider-created|%s", e.Owner.String())
	case ptypes.EventProviderUpdated:
		return fmt.Sprintf("provider-updated|%s", e.Owner.String())
	case ptypes.EventProviderDeleted:
		return fmt.Sprintf("provider-deleted|%s", e.Owner.String())
	case atypes.EventTrustedAuditorCreated:
		return fmt.Sprintf("auditor-created|%s|%s", e.Owner.String(), e.Auditor.String())
	case atypes.EventTrustedAuditorDeleted:
		return fmt.Sprintf("auditor-deleted|%s|%s", e.Owner.String(), e.Auditor.String())
	}
	return fmt.Sprintf("unknown|%T|%v", ev, ev)
}

func (o *cmC16) afterTx(m *chainMachine, tx *cmTx) {
	if !tx.ok {
		return
	}
	// expected multiset from the record diff
	expected := map[string]int{}
	exp := func(ev interface{}) { expected[c16Render(ev)]++ }
	changed := 0
	for _, ord := range tx.post.orders {
		old, ok := tx.pre.order(ord.OrderID)
		if !ok {
			exp(mtypes.NewEventOrderCreated(ord.OrderID))
			changed++
		}
		if (!ok || old.State != ord.State) && ord.State == mtypes.OrderClosed {
			exp(mtypes.NewEventOrderClosed(ord.OrderID))
			changed++
		}
	}
	for _, b := range tx.post.bids {
		old, ok := tx.pre.bid(b.BidID)
		if !ok {
			exp(mtypes.NewEventBidCreated(b.BidID, b.Price))
			changed++
		}
		if (!ok || old.State != b.State) && b.State == mtypes.BidClosed {
			exp(mtypes.NewEventBidClosed(b.BidID, b.Price))
			changed++
		}
	}
	for _, l := range tx.post.leases {
		old, ok := tx.pre.lease(l.LeaseID)
		if !ok {
			exp(mtypes.NewEventLeaseCreated(l.LeaseID, l.Price))
			changed++
		}
		if (!ok || old.State != l.State) && (l.State == mtypes.LeaseClosed || l.State == mtypes.LeaseInsufficientFunds) {
			exp(mtypes.NewEventLeaseClosed(l.LeaseID, l.Price))
			changed++
		}
	}
	tolerated := map[string]bool{}
	for _, d := range tx.post.deployments {
		old, ok := tx.pre.deployment(d.DeploymentID)
		if !ok {
			exp(dtypes.NewEventDeploymentCreated(d.DeploymentID, d.Version))
			changed++
		}
		if (!ok || old.State != d.State) && d.State == dtypes.DeploymentClosed {
			exp(dtypes.NewEventDeploymentClosed(d.DeploymentID))
			changed++
		}
		if ok && !bytes.Equal(old.Version, d.Version) {
			exp(dtypes.NewEventDeploymentUpdated(d.DeploymentID, d.Version))
			changed++
		}
		// an update event without a version change is tolerated (statement's negative clause does not cover it)
		tolerated[c16Render(dtypes.NewEventDeploymentUpdated(d.DeploymentID, d.Version))] = true
	}
	for _, g := range tx.post.groups {
		old, ok := tx.pre.group(g.GroupID)
		if !ok || old.State == g.State {
			continue
		}
		changed++
		switch g.State {
		case dtypes.GroupPaused:
			exp(dtypes.NewEventGroupPaused(g.GroupID))
		case dtypes.GroupOpen:
			exp(dtypes.NewEventGroupStarted(g.GroupID))
		case dtypes.GroupClosed, dtypes.GroupInsufficientFunds:
			exp(dtypes.NewEventGroupClosed(g.GroupID))
		}
	}
	switch msg := tx.msg.(type) {
	case *ptypes.MsgCreateProvider:
		a, _ := sdk.AccAddressFromBech32(msg.Owner)
		exp(ptypes.NewEventProviderCreated(a))
	case *ptypes.MsgUpdateProvider:
		a, _ := sdk.AccAddressFromBech32(msg.Owner)
		exp(ptypes.NewEventProviderUpdated(a))
	case *atypes.MsgSignProviderAttributes:
		ow, _ := sdk.AccAddressFromBech32(msg.Owner)
		au, _ := sdk.AccAddressFromBech32(msg.Auditor)
		exp(atypes.NewEventTrustedAuditorCreated(ow, au))
	case *atypes.MsgDeleteProviderAttributes:
		ow, _ := sdk.AccAddressFromBech32(msg.Owner)
		au, _ := sdk.AccAddressFromBech32(msg.Auditor)
		tolerated[c16Render(atypes.NewEventTrustedAuditorDeleted(ow, au))] = true
	case *dtypes.MsgPauseGroup:
		// the message's own transition happened inside the transaction even if a cascade
		// (overdraft while closing the payment) moved the group on afterwards
		tolerated[c16Render(dtypes.NewEventGroupPaused(msg.ID))] = true
	case *dtypes.MsgStartGroup:
		tolerated[c16Render(dtypes.NewEventGroupStarted(msg.ID))] = true
	case *mtypes.MsgCloseBid:
		// closing a matched bid pauses the group first; if settling the payment then
		// overdraws the account the same transaction moves the group on to
		// insufficient-funds. The pause did happen inside the transaction, so its event is
		// legitimate although the before/after diff only shows the final state.
		if b, ok := tx.pre.bid(msg.BidID); ok && b.State == mtypes.BidActive {
			tolerated[c16Render(dtypes.NewEventGroupPaused(msg.BidID.GroupID()))] = true
		}
	}
	// a bid that LOST is not a bid that was closed: the statement forbids a closed event for an
	// object that did not change in that way (and the chain never closes a lost bid later)
	if changed >= 2 {
		switch tx.msg.(type) {
		case *dtypes.MsgCreateDeployment:
		default:
			o.interesting = true
			m.label("multi-object-change")
		}
	}
	// emitted events, parsed exactly as the provider does
	emitted := map[string]int{}
	for _, bev := range tx.resp.Events {
		if bev.Type != sdkutil.EventTypeMessage {
			continue
		}
		typed, ok := c16Parse(bev)
		if !ok {
			m.fatalf("c16-undecodable-event", "%s emitted a marketplace event that the provider's event parser cannot decode: %s", tx.label, sdk.StringifyEvent(bev))
		}
		emitted[c16Render(typed)]++
	}
	var keys []string
	for k := range expected {
		keys = append(keys, k)
	}
	sort.Strings(keys)
	for _, k := range keys {
		if emitted[k] != expected[k] {
			m.fatalf("c16-missing-or-duplicate-event", "%s: expected exactly %d event %q for the state change, transaction emitted %d (emitted: %v)", tx.label, expected[k], k, emitted[k], cmSortedKeys(emitted))
		}
	}
	for _, k := range cmSortedKeys(emitted) {
		if expected[k] > 0 || tolerated[k] {
			continue
		}
		m.fatalf("c16-spurious-event", "%s emitted %q but no object changed in that way (expected: %v)", tx.label, k, keys)
	}
}

func cmSortedKeys(m map[string]int) []string {
	var ks []string
	for k := range m {
		ks = append(ks, k)
	}
	sort.Strings(ks)
	return ks
}

func (o *cmC16) nontrivial(m *chainMachine) bool { return o.interesting }

func TestVerif_C16(t *testing.T) {
	cmRun(t, "C16", c16Rule, func() cmOracle { return &cmC16{} }, cmLifecycleProfile, false)
}
