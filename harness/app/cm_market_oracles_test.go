package app

// Oracles C04 (lifecycle consistency), C08 (bid admission / provider attribute guard),
// C02-B (metering over full-app histories).

import (
	"fmt"
	"testing"

	sdk "github.com/cosmos/cosmos-sdk/types"

	akashtypes "github.com/ovrclk/akash/types"
	atypes "github.com/ovrclk/akash/x/audit/types"
	dtypes "github.com/ovrclk/akash/x/deployment/types"
	etypes "github.com/ovrclk/akash/x/escrow/types"
	mtypes "github.com/ovrclk/akash/x/market/types"
	ptypes "github.com/ovrclk/akash/x/provider/types"
)

// ------------------------------------------------------------------ C04

type cmC04 struct {
	cmBaseOracle
	maxDeployments int
	sawLease       bool
}

const c04Rule = "chain-machine history with >=2 deployments and >=1 lease; labels: overdraft followed by a group message, close-bid on a matched bid, close-lease re-order"

func (o *cmC04) check(m *chainMachine, s *cmSnap, what string) {
	if len(s.deployments) > o.maxDeployments {
		o.maxDeployments = len(s.deployments)
	}
	gname := func(g dtypes.GroupID) string {
		return fmt.Sprintf("%s/%d/%d", m.byAddr[g.Owner].name, g.DSeq, g.GSeq)
	}
	activeLeases := map[mtypes.OrderID]int{}
	for _, l := range s.leases {
		if l.State != mtypes.LeaseActive {
			continue
		}
		o.sawLease = true
		activeLeases[l.LeaseID.OrderID()]++
		b, ok := s.bid(mtypes.BidID(l.LeaseID))
		if !ok || b.State != mtypes.BidActive {
			m.fatalf("c04-lease-bid", "after %s: active lease %s but its bid is %v (found=%v)", what, m.bidName(mtypes.BidID(l.LeaseID)), b.State, ok)
		}
		ord, ok := s.order(l.LeaseID.OrderID())
		if !ok || ord.State != mtypes.OrderActive {
			m.fatalf("c04-lease-order", "after %s: active lease %s but its order is %v (found=%v)", what, m.bidName(mtypes.BidID(l.LeaseID)), ord.State, ok)
		}
		g, ok := s.group(l.LeaseID.GroupID())
		if !ok || g.State != dtypes.GroupOpen {
			m.fatalf("c04-lease-group", "after %s: active lease %s but its group is %v (found=%v)", what, m.bidName(mtypes.BidID(l.LeaseID)), g.State, ok)
		}
		d, ok := s.deployment(l.LeaseID.DeploymentID())
		if !ok || d.State != dtypes.DeploymentActive {
			m.fatalf("c04-lease-deployment", "after %s: active lease %s but its deployment is %v (found=%v)", what, m.bidName(mtypes.BidID(l.LeaseID)), d.State, ok)
		}
		if !l.Price.IsEqual(b.Price) {
			m.fatalf("c04-lease-price", "after %s: lease %s price %s differs from its bid's price %s", what, m.bidName(mtypes.BidID(l.LeaseID)), l.Price, b.Price)
		}
	}
	for _, l := range s.leases {
		// price relation holds for every lease ever created
		if ord, ok := s.order(l.LeaseID.OrderID()); ok {
			max := ord.Spec.Price()
			if l.Price.Denom != max.Denom || l.Price.Amount.GT(max.Amount) {
				m.fatalf("c04-lease-over-max", "after %s: lease %s price %s exceeds the order's maximum %s", what, m.bidName(mtypes.BidID(l.LeaseID)), l.Price, max)
			}
		}
		if b, ok := s.bid(mtypes.BidID(l.LeaseID)); ok && !l.Price.IsEqual(b.Price) {
			m.fatalf("c04-lease-price", "after %s: lease %s price %s differs from its bid's price %s", what, m.bidName(mtypes.BidID(l.LeaseID)), l.Price, b.Price)
		}
	}
	liveOrders := map[dtypes.GroupID]int{}
	for _, ord := range s.orders {
		n := activeLeases[ord.OrderID]
		if (ord.State == mtypes.OrderActive) != (n == 1) || n > 1 {
			m.fatalf("c04-order-matched", "after %s: order %s/%d/%d/%d is %s with %d active leases", what, m.byAddr[ord.OrderID.Owner].name, ord.OrderID.DSeq, ord.OrderID.GSeq, ord.OrderID.OSeq, ord.State, n)
		}
		if ord.State != mtypes.OrderClosed {
			liveOrders[ord.OrderID.GroupID()]++
		}
	}
	for _, b := range s.bids {
		if b.State == mtypes.BidOpen {
			ord, ok := s.order(b.BidID.OrderID())
			if !ok || ord.State != mtypes.OrderOpen {
				m.fatalf("c04-open-bid-order", "after %s: bid %s is open but its order is %v (found=%v)", what, m.bidName(b.BidID), ord.State, ok)
			}
		}
	}
	for _, g := range s.groups {
		d, ok := s.deployment(g.GroupID.DeploymentID())
		if !ok {
			m.fatalf("c04-group-orphan", "after %s: group %s has no deployment", what, gname(g.GroupID))
		}
		n := liveOrders[g.GroupID]
		if n > 1 {
			m.fatalf("c04-group-orders", "after %s: group %s has %d non-closed orders", what, gname(g.GroupID), n)
		}
		if g.State == dtypes.GroupOpen && d.State == dtypes.DeploymentActive && n != 1 {
			m.fatalf("c04-open-group-order", "after %s: open group %s of an active deployment has %d non-closed orders (want 1)", what, gname(g.GroupID), n)
		}
		if g.State != dtypes.GroupOpen && n != 0 {
			m.fatalf("c04-closed-group-order", "after %s: group %s is %s but has %d non-closed orders", what, gname(g.GroupID), g.State, n)
		}
		if d.State == dtypes.DeploymentClosed && (g.State == dtypes.GroupOpen || g.State == dtypes.GroupPaused) {
			m.fatalf("c04-closed-deployment-group", "after %s: deployment %s/%d is closed but its group %s is %s", what, m.byAddr[d.DeploymentID.Owner].name, d.DeploymentID.DSeq, gname(g.GroupID), g.State)
		}
	}
	for _, d := range s.deployments {
		if d.State != dtypes.DeploymentClosed {
			continue
		}
		for _, ord := range s.orders {
			if ord.OrderID.GroupID().DeploymentID() == d.DeploymentID && ord.State != mtypes.OrderClosed {
				m.fatalf("c04-closed-deployment-order", "after %s: closed deployment %s/%d still has order oseq=%d in state %s", what, m.byAddr[d.DeploymentID.Owner].name, d.DeploymentID.DSeq, ord.OrderID.OSeq, ord.State)
			}
		}
		for _, b := range s.bids {
			if b.BidID.DeploymentID() == d.DeploymentID && (b.State == mtypes.BidOpen || b.State == mtypes.BidActive) {
				m.fatalf("c04-closed-deployment-bid", "after %s: closed deployment %s/%d still has bid %s in state %s", what, m.byAddr[d.DeploymentID.Owner].name, d.DeploymentID.DSeq, m.bidName(b.BidID), b.State)
			}
		}
		for _, l := range s.leases {
			if l.LeaseID.DeploymentID() == d.DeploymentID && l.State == mtypes.LeaseActive {
				m.fatalf("c04-closed-deployment-lease", "after %s: closed deployment %s/%d still has an active lease", what, m.byAddr[d.DeploymentID.Owner].name, d.DeploymentID.DSeq)
			}
		}
	}
}

func (o *cmC04) afterTx(m *chainMachine, tx *cmTx) {
	o.check(m, tx.post, tx.label)
	if !tx.ok {
		return
	}
	switch msg := tx.msg.(type) {
	case *dtypes.MsgStartGroup, *dtypes.MsgPauseGroup, *dtypes.MsgCloseGroup:
		var gid dtypes.GroupID
		switch x := msg.(type) {
		case *dtypes.MsgStartGroup:
			gid = x.ID
		case *dtypes.MsgPauseGroup:
			gid = x.ID
		case *dtypes.MsgCloseGroup:
			gid = x.ID
		}
		if g, ok := tx.pre.group(gid); ok && g.State == dtypes.GroupInsufficientFunds {
			m.label("group-message-after-overdraft")
		}
	case *mtypes.MsgCloseBid:
		if b, ok := tx.pre.bid(msg.BidID); ok && b.State == mtypes.BidActive {
			m.label("close-bid-on-matched-bid")
		}
	case *mtypes.MsgCloseLease:
		if len(tx.post.orders) > len(tx.pre.orders) {
			m.label("close-lease-reorder")
		}
	}
}
func (o *cmC04) afterAdvance(m *chainMachine, pre, post *cmSnap) {
	o.check(m, post, "advancing blocks")
}
func (o *cmC04) nontrivial(m *chainMachine) bool { return o.maxDeployments >= 2 && o.sawLease }

var cmLifecycleProfile = cmProfile{weights: map[string]int{
	"deployCreate": 4, "marketRound": 5, "advance": 5, "provider": 1, "audit": 1,
	"leaseClose": 2, "bidClose": 3, "deployClose": 2, "leaseWithdraw": 3, "groupStart": 4, "groupPause": 3, "groupClose": 2,
	"cert": 0, "wrongSigner": 1, "deployDeposit": 1, "withdrawThenClose": 1, "bidCreate": 2, "leaseCreate": 2, "exhaustExactly": 2, "leaseChurn": 4,
}}

func TestVerif_C04(t *testing.T) {
	cmRun(t, "C04", c04Rule, func() cmOracle { return &cmC04{} }, cmLifecycleProfile, false)
}

// ------------------------------------------------------------------ C08

type cmC08 struct {
	cmBaseOracle
	interesting                       bool
	bidsAccepted, bidsRejected        int
	rejectedThoughOracleAccepts       int
	updatesWithLease, updatesRejected int
	// independent model of what each auditor has signed for each provider, built from the
	// history of successful sign / delete messages (not read back from the audit store)
	att map[string]map[string]string
}

func c08Pair(auditor, owner string) string { return auditor + "|" + owner }

// cmNormAddr returns the canonical (lower-case) spelling of a bech32 account address.
func cmNormAddr(a string) string {
	if x, err := sdk.AccAddressFromBech32(a); err == nil {
		return x.String()
	}
	return a
}

// signed returns the modelled attestation of auditor for owner as an attribute list.
func (o *cmC08) signed(auditor, owner string) akashtypes.Attributes {
	var out akashtypes.Attributes
	kv := o.att[c08Pair(auditor, owner)]
	var keys []string
	for k := range kv {
		keys = append(keys, k)
	}
	for _, k := range sortedStrings(keys) {
		out = append(out, akashtypes.Attribute{Key: k, Value: kv[k]})
	}
	return out
}

func (o *cmC08) trackAttestations(m *chainMachine, tx *cmTx) {
	if o.att == nil {
		o.att = map[string]map[string]string{}
	}
	var auditor, owner string
	switch msg := tx.msg.(type) {
	case *atypes.MsgSignProviderAttributes:
		auditor, owner = msg.Auditor, msg.Owner
		if tx.ok {
			kv := o.att[c08Pair(auditor, owner)]
			if kv == nil {
				kv = map[string]string{}
				o.att[c08Pair(auditor, owner)] = kv
			}
			for _, a := range msg.Attributes {
				kv[a.Key] = a.Value
			}
		}
	case *atypes.MsgDeleteProviderAttributes:
		auditor, owner = msg.Auditor, msg.Owner
		if tx.ok {
			if msg.Keys == nil {
				delete(o.att, c08Pair(auditor, owner))
			} else {
				for _, k := range msg.Keys {
					delete(o.att[c08Pair(auditor, owner)], k)
				}
			}
		}
	default:
		return
	}
	// whatever the chain now holds as signed by this auditor must have been signed and not withdrawn
	kv := o.att[c08Pair(auditor, owner)]
	for _, a := range tx.post.audits {
		if a.Owner != owner || a.Auditor != auditor {
			continue
		}
		for _, x := range a.Attributes {
			if v, ok := kv[x.Key]; !ok || v != x.Value {
				m.fatalf("c08-stale-attestation", "after %s the chain holds %s=%s as signed by %s for %s, but by the history of sign/delete messages the auditor's attestation is %s: a bid relying on it would be admitted", tx.label, x.Key, x.Value, m.byAddr[auditor].name, m.byAddr[owner].name, cmAttrStr(o.signed(auditor, owner)))
			}
		}
	}
}

const c08Rule = "chain-machine history containing a bid attempt against an order with auditor (all-of/any-of) requirements, or a provider update attempted while that provider holds an active lease"

func cmAttrsCover(required, have akashtypes.Attributes) bool {
	for _, r := range required {
		found := false
		for _, h := range have {
			if h.Key == r.Key && h.Value == r.Value {
				found = true
			}
		}
		if !found {
			return false
		}
	}
	return true
}

// c08Admissible is the independent set-based predicate, evaluated on the pre-state.
func (o *cmC08) admissible(m *chainMachine, pre *cmSnap, msg *mtypes.MsgCreateBid) (bool, string) {
	ord, ok := pre.order(msg.Order)
	if !ok {
		return false, "order does not exist"
	}
	if ord.State != mtypes.OrderOpen {
		return false, "order is not open"
	}
	// an account address has two valid spellings (all lower case, all upper case): compare accounts, not strings
	bidder := cmNormAddr(msg.Provider)
	prov, ok := pre.provider(bidder)
	if !ok {
		return false, "provider is not registered"
	}
	if bidder == cmNormAddr(msg.Order.Owner) {
		return false, "provider is the tenant"
	}
	max := ord.Spec.Price()
	if msg.Price.Denom != max.Denom || msg.Price.Amount.IsNil() || !msg.Price.Amount.IsPositive() {
		return false, "price invalid / zero / wrong denomination"
	}
	if msg.Price.Amount.GT(max.Amount) {
		return false, "price above the order's maximum"
	}
	if msg.Deposit.Denom != cmDenom || msg.Deposit.Amount.LT(sdk.NewInt(m.params.bidMin)) {
		return false, "deposit below the minimum"
	}
	req := ord.Spec.Requirements
	attest := func(auditor string) (akashtypes.Attributes, bool) {
		// existence of a (possibly empty) record is read from the chain, its content from the model
		for _, a := range pre.audits {
			if a.Owner == bidder && a.Auditor == auditor {
				return o.signed(auditor, bidder), true
			}
		}
		return nil, false
	}
	if len(req.SignedBy.AllOf) == 0 && len(req.SignedBy.AnyOf) == 0 {
		if !cmAttrsCover(req.Attributes, prov.Attributes) {
			return false, "self-declared attributes do not cover the requirements"
		}
		return true, ""
	}
	for _, a := range req.SignedBy.AllOf {
		at, ok := attest(a)
		if !ok || !cmAttrsCover(req.Attributes, at) {
			return false, "an all-of auditor has not signed covering attributes"
		}
	}
	if len(req.SignedBy.AnyOf) > 0 {
		any := false
		for _, a := range req.SignedBy.AnyOf {
			if at, ok := attest(a); ok && cmAttrsCover(req.Attributes, at) {
				any = true
			}
		}
		if !any {
			return false, "no any-of auditor has signed covering attributes"
		}
	}
	return true, ""
}

func (o *cmC08) afterTx(m *chainMachine, tx *cmTx) {
	o.trackAttestations(m, tx)
	switch msg := tx.msg.(type) {
	case *mtypes.MsgCreateBid:
		if tx.twin {
			return
		}
		if ord, ok := tx.pre.order(msg.Order); ok && (len(ord.Spec.Requirements.SignedBy.AllOf) > 0 || len(ord.Spec.Requirements.SignedBy.AnyOf) > 0) {
			o.interesting = true
			m.label("bid-on-order-with-auditors")
		}
		okOracle, why := o.admissible(m, tx.pre, msg)
		if tx.ok {
			o.bidsAccepted++
			if !okOracle {
				m.fatalf("c08-bid-admitted", "%s was ACCEPTED although %s", tx.label, why)
			}
		} else {
			o.bidsRejected++
			if okOracle {
				o.rejectedThoughOracleAccepts++
			}
		}
	case *ptypes.MsgUpdateProvider:
		if tx.twin {
			return
		}
		has := false
		for _, l := range tx.pre.leases {
			if l.State != mtypes.LeaseActive || l.LeaseID.Provider != msg.Owner {
				continue
			}
			has = true
			if tx.ok {
				if ord, ok := tx.pre.order(l.LeaseID.OrderID()); ok && !cmAttrsCover(ord.Spec.Requirements.Attributes, msg.Attributes) {
					m.fatalf("c08-update-uncovers-lease", "%s was ACCEPTED although the provider's active lease %s requires %s", tx.label, m.bidName(mtypes.BidID(l.LeaseID)), cmAttrStr(ord.Spec.Requirements.Attributes))
				}
			}
		}
		if has {
			o.interesting = true
			o.updatesWithLease++
			m.label("provider-update-with-active-lease")
			if !tx.ok {
				o.updatesRejected++
			}
		}
	}
}

func (o *cmC08) nontrivial(m *chainMachine) bool {
	vsExtra("c08_bids_accepted", o.bidsAccepted)
	vsExtra("c08_bids_rejected", o.bidsRejected)
	vsExtra("c08_rejected_though_oracle_accepts(converse,statistic only)", o.rejectedThoughOracleAccepts)
	vsExtra("c08_updates_with_active_lease", o.updatesWithLease)
	vsExtra("c08_updates_with_active_lease_rejected", o.updatesRejected)
	return o.interesting
}

var cmBidProfile = cmProfile{weights: map[string]int{
	"deployCreate": 4, "marketRound": 3, "advance": 2, "provider": 5, "audit": 6,
	"leaseClose": 1, "bidClose": 1, "deployClose": 1, "leaseWithdraw": 0, "groupStart": 1, "groupPause": 1, "groupClose": 1,
	"cert": 0, "wrongSigner": 1, "deployDeposit": 0, "withdrawThenClose": 0, "bidCreate": 10, "leaseCreate": 3, "nearMissBid": 5, "govParamChange": 1,
}}

func TestVerif_C08(t *testing.T) {
	cmRun(t, "C08", c08Rule, func() cmOracle { return &cmC08{} }, cmBidProfile, false)
}

var _ = atypes.Provider{}

// ------------------------------------------------------------------ C02 (domain B)

type cmC02 struct {
	cmBaseOracle
	overdrawnAcc map[string]bool
	concurrent   bool
	overdraft    bool
	deposits     map[string]sdk.Int
}

const c02bRule = "full-app chain-machine history with >=2 payments open concurrently on one deployment account, or an overdraft"

func (o *cmC02) check(m *chainMachine, pre, post *cmSnap, what string, tx *cmTx) {
	// track deposits from observed successful messages
	if tx != nil && tx.ok {
		switch msg := tx.msg.(type) {
		case *dtypes.MsgCreateDeployment:
			o.deposits[cmAccKey(dtypes.EscrowAccountForDeployment(msg.ID))] = msg.Deposit.Amount
		case *dtypes.MsgDepositDeployment:
			k := cmAccKey(dtypes.EscrowAccountForDeployment(msg.ID))
			o.deposits[k] = o.deposits[k].Add(msg.Amount.Amount)
		}
	}
	for _, a := range post.accounts {
		k := cmAccKey(a.ID)
		if a.State == etypes.AccountOverdrawn {
			o.overdrawnAcc[k] = true
		}
		credited := sdk.ZeroInt()
		nOpen := 0
		for _, p := range post.payments {
			if p.AccountID != a.ID {
				continue
			}
			credited = credited.Add(p.Balance.Amount).Add(p.Withdrawn.Amount)
			if p.State == etypes.PaymentOpen {
				nOpen++
			}
		}
		if nOpen >= 2 {
			o.concurrent = true
			m.label("concurrent-payments")
		}
		// (iii) transferred == credited; balance+transferred == deposits while open, <= deposits always
		if !a.Transferred.Amount.Equal(credited) {
			m.fatalf("c02-transferred-vs-credited", "after %s: account %s has transferred %s but its payees were credited %s", what, k, a.Transferred.Amount, credited)
		}
		if dep, ok := o.deposits[k]; ok {
			tot := a.Balance.Amount.Add(a.Transferred.Amount)
			if a.State == etypes.AccountOpen && !tot.Equal(dep) {
				m.fatalf("c02-balance-plus-transferred", "after %s: open account %s balance+transferred=%s but deposits total %s", what, k, tot, dep)
			}
			if a.Transferred.Amount.GT(dep) {
				m.fatalf("c02-transferred-more-than-deposited", "after %s: account %s transferred %s but only %s was ever deposited", what, k, a.Transferred.Amount, dep)
			}
		}
		if a.Balance.Amount.IsNegative() {
			m.fatalf("c02-negative-balance", "after %s: account %s has negative balance", what, k)
		}
	}
	for _, p := range post.payments {
		k := cmPayKey(p)
		created, ok := m.payCreated[k]
		if !ok {
			continue
		}
		a, _ := post.account(p.AccountID)
		last := a.SettledAt
		if p.State != etypes.PaymentOpen {
			last = m.payClosed[k]
		}
		earned := p.Balance.Amount.Add(p.Withdrawn.Amount)
		full := p.Rate.Amount.MulRaw(last - created)
		// (ii) never more than rate x blocks open
		if earned.GT(full) {
			m.fatalf("c02-overcharge", "after %s: payment %s earned %s > rate %s x %d blocks open (created h%d, last h%d)", what, k, earned, p.Rate.Amount, last-created, created, last)
		}
		// the same two clauses measured against the LEASE (market store), not the payment record:
		// a payee never receives more than price x blocks the lease was open, and accrues exactly
		// that while the lease is open and the account funded
		if p.AccountID.Scope == dtypes.EscrowScope {
			if l, found := post.leaseOfPayment(p.AccountID, p.PaymentID); found {
				lastL, known := a.SettledAt, true
				if l.State != mtypes.LeaseActive {
					lastL, known = m.leaseEnded[k], m.leaseEnded[k] > 0
				}
				if known {
					fullL := p.Rate.Amount.MulRaw(lastL - created)
					if earned.GT(fullL) {
						m.fatalf("c02-overcharge-vs-lease", "after %s: payee of lease %s earned %s > price %s x %d blocks the lease was open (created h%d, lease %s, last h%d)", what, k, earned, p.Rate.Amount, lastL-created, created, l.State, lastL)
					}
					if l.State == mtypes.LeaseActive && !o.overdrawnAcc[cmAccKey(p.AccountID)] && !earned.Equal(fullL) {
						m.fatalf("c02-inexact-vs-lease", "after %s: lease %s is active and funded, its provider earned %s but price %s x %d elapsed blocks = %s (payment %s)", what, k, earned, p.Rate.Amount, lastL-created, fullL, p.State)
					}
				}
			}
		}
		// (i) exact while the account has never been overdrawn
		if !o.overdrawnAcc[cmAccKey(p.AccountID)] && !earned.Equal(full) {
			m.fatalf("c02-inexact", "after %s: payment %s earned %s but rate %s x %d elapsed blocks = %s (created h%d, settled/closed h%d, state %s)", what, k, earned, p.Rate.Amount, last-created, full, created, last, p.State)
		}
	}
	// (iv) the overdraft transaction distributes exactly the remaining balance
	for _, a := range post.accounts {
		old, ok := pre.account(a.ID)
		if !ok || old.State != etypes.AccountOpen || a.State != etypes.AccountOverdrawn {
			continue
		}
		o.overdraft = true
		m.label("overdraft")
		R := sdk.ZeroInt()
		for _, p := range pre.payments {
			if p.AccountID == a.ID && p.State == etypes.PaymentOpen {
				R = R.Add(p.Rate.Amount)
			}
		}
		if !R.IsPositive() {
			m.fatalf("c02-overdraft-without-payees", "after %s: account %s became overdrawn without open payments", what, cmAccKey(a.ID))
		}
		B := old.Balance.Amount
		kk := B.Quo(R)
		if !B.Mod(R).IsZero() {
			m.label("overdraft-with-remainder")
		}
		sum := sdk.ZeroInt()
		for _, p := range pre.payments {
			if p.AccountID != a.ID || p.State != etypes.PaymentOpen {
				continue
			}
			np, _ := post.payment(p.AccountID, p.PaymentID)
			inc := np.Balance.Amount.Add(np.Withdrawn.Amount).Sub(p.Balance.Amount).Sub(p.Withdrawn.Amount)
			lo := p.Rate.Amount.Mul(kk)
			hi := lo.Add(p.Rate.Amount)
			if inc.LT(lo) || inc.GT(hi) {
				m.fatalf("c02-overdraft-split", "after %s: overdraft of %s (balance %s, total rate %s, %s full blocks): payee %s got %s, outside [%s,%s]", what, cmAccKey(a.ID), B, R, kk, cmPayKey(p), inc, lo, hi)
			}
			sum = sum.Add(inc)
		}
		if !sum.Equal(B) || !a.Balance.Amount.IsZero() {
			m.fatalf("c02-overdraft-total", "after %s: overdraft of %s distributed %s of the remaining %s (post balance %s)", what, cmAccKey(a.ID), sum, B, a.Balance.Amount)
		}
	}
}

func (o *cmC02) afterTx(m *chainMachine, tx *cmTx) { o.check(m, tx.pre, tx.post, tx.label, tx) }
func (o *cmC02) afterAdvance(m *chainMachine, pre, post *cmSnap) {
	o.check(m, pre, post, "advancing blocks", nil)
}
func (o *cmC02) nontrivial(m *chainMachine) bool { return o.concurrent || o.overdraft }

var cmMeterProfile = cmProfile{weights: map[string]int{
	"deployCreate": 3, "marketRound": 6, "advance": 7, "provider": 1, "audit": 1,
	"leaseClose": 2, "bidClose": 2, "deployClose": 1, "leaseWithdraw": 5, "groupStart": 2, "groupPause": 1, "groupClose": 1,
	"cert": 0, "wrongSigner": 0, "deployDeposit": 3, "withdrawThenClose": 1, "exhaustExactly": 3,
}}

func TestVerif_C02_App(t *testing.T) {
	cmRun(t, "C02", c02bRule, func() cmOracle {
		return &cmC02{overdrawnAcc: map[string]bool{}, deposits: map[string]sdk.Int{}}
	}, cmMeterProfile, false)
}
