package rest

import (
	"context"
	"math/big"
	"testing"
	"time"

	gwutils "github.com/ovrclk/akash/provider/gateway/utils"
	ctypes "github.com/ovrclk/akash/x/cert/types"
)

// Replay tier for C09: D4 (forged copy), D11 (differing issuer) and the seeded "revoked" change.
func TestVerif_C09_Replay(t *testing.T) {
	chain := c09NewChain()
	owner := c09Tenants[0]
	now := time.Now()
	good := c09Spec{cn: owner.String(), serial: big.NewInt(777), notBefore: now.Add(-48 * time.Hour), notAfter: now.Add(48 * time.Hour), clientAuth: true}
	real := c09Make(good)
	if err := chain.k.CreateCertificate(chain.ctx, owner, real.pem, real.pub); err != nil {
		t.Fatalf("register: %v", err)
	}
	cfg, err := gwutils.NewServerTLSConfig(context.Background(), nil, chain)
	if err != nil {
		t.Fatal(err)
	}
	if err := cfg.VerifyPeerCertificate([][]byte{real.der}, nil); err != nil {
		t.Fatalf("C09 VIOLATION key=c09-genuine-rejected: %v", err)
	}
	forged := c09Make(good)
	if err := cfg.VerifyPeerCertificate([][]byte{forged.der}, nil); err == nil {
		t.Fatalf("C09 VIOLATION key=c09-forged-copy-accepted: a self-made certificate copying name and serial was accepted")
	}
	other := good
	other.issuerCN = c09Tenants[1].String()
	if err := cfg.VerifyPeerCertificate([][]byte{c09Make(other).der}, nil); err == nil {
		t.Fatalf("C09 VIOLATION key=c09-issuer-differs-accepted: a certificate with a foreign issuer name was accepted")
	}
	if err := chain.k.RevokeCertificate(chain.ctx, ctypes.CertID{Owner: owner, Serial: *big.NewInt(777)}); err != nil {
		t.Fatal(err)
	}
	if err := cfg.VerifyPeerCertificate([][]byte{real.der}, nil); err == nil {
		t.Fatalf("C09 VIOLATION key=c09-revoked-accepted: a revoked certificate was accepted")
	}
}
