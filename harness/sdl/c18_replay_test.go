package sdl_test

import (
	"testing"

	"github.com/ovrclk/akash/sdl"
)

// Replay tier for C18: D5 (command dropped) and the seeded price-per-profile change.
func TestVerif_C18_Replay(t *testing.T) {
	doc := `---
version: "2.0"
services:
  web:
    image: nginx
    command: ["sh", "-c"]
    args: ["run"]
    env: ["A=b"]
    expose:
      - port: 80
        to:
          - global: true
profiles:
  compute:
    web:
      resources:
        cpu:
          units: "100m"
        memory:
          size: "16Mi"
        storage:
          size: "64Mi"
  placement:
    east:
      pricing:
        web:
          denom: uakt
          amount: 25
    west:
      pricing:
        web:
          denom: uakt
          amount: 700
deployment:
  web:
    east:
      profile: web
      count: 1
    west:
      profile: web
      count: 2
`
	s, err := sdl.Read([]byte(doc))
	if err != nil {
		t.Fatalf("replay document rejected: %v", err)
	}
	m, _ := s.Manifest()
	for _, g := range m {
		svc := g.Services[0]
		if len(svc.Command) != 2 || svc.Command[0] != "sh" || len(svc.Args) != 1 || len(svc.Env) != 1 {
			t.Fatalf("C18 VIOLATION key=c18-unfaithful-command: manifest group %s: command=%v args=%v env=%v", g.Name, svc.Command, svc.Args, svc.Env)
		}
	}
	groups, _ := s.DeploymentGroups()
	want := map[string]int64{"east": 25, "west": 700}
	for _, g := range groups {
		if got := g.Resources[0].Price.Amount.Int64(); got != want[g.Name] {
			t.Fatalf("C18 VIOLATION key=c18-unfaithful-group: group %s carries price %d, declared %d", g.Name, got, want[g.Name])
		}
	}
}
