package app

// C19 — only deployments within the network's resource and price limits are admitted.
// High-volume: boundary-pushing MsgCreateDeployment through ValidateBasic + the module
// handler on a discarded branch of a real app state, against an independent big.Int
// oracle that reads the limits from GetValidationConfig() and the params. Low-volume:
// the same messages as signed transactions in the chain machine, plus a stored-state
// invariant after every transaction.

import (
	"fmt"
	"math/big"
	"strings"
	"testing"

	sdk "github.com/cosmos/cosmos-sdk/types"
	"pgregory.net/rapid"

	akashtypes "github.com/ovrclk/akash/types"
	dtypes "github.com/ovrclk/akash/x/deployment/types"
)

const c19Rule = "MsgCreateDeployment derived from a valid base by 1-3 edits that put a field on or just beyond a bound (group/unit counts, cpu/memory/storage, replica count, totals, price, denom, names, version length, deposit, overflowing/negative/nil values)"

func bi(u uint64) *big.Int { return new(big.Int).SetUint64(u) }

func c19IntBig(x sdk.Int) (v *big.Int, ok bool) {
	defer func() {
		if recover() != nil {
			v, ok = nil, false
		}
	}()
	if x.IsNil() {
		return nil, false
	}
	b := x.BigInt()
	return b, b != nil
}

// c19Violations is the independent conjunction: it returns the violated clauses.
func c19Violations(msg *dtypes.MsgCreateDeployment, minDeposit sdk.Coin) []string {
	cfg := dtypes.GetValidationConfig()
	var v []string
	if n := len(msg.Groups); n < 1 || n > cfg.MaxGroupCount {
		v = append(v, fmt.Sprintf("group count %d not in [1,%d]", n, cfg.MaxGroupCount))
	}
	names := map[string]bool{}
	for gi, g := range msg.Groups {
		if names[g.Name] {
			v = append(v, fmt.Sprintf("group %d: duplicate name %q", gi, g.Name))
		}
		names[g.Name] = true
		if n := len(g.Resources); n < 1 || n > cfg.MaxGroupUnits {
			v = append(v, fmt.Sprintf("group %d: unit count %d not in [1,%d]", gi, n, cfg.MaxGroupUnits))
		}
		totCPU, totMem, totSto := new(big.Int), new(big.Int), new(big.Int)
		for ui, r := range g.Resources {
			within := func(what string, val sdk.Int, lo, hi uint64) *big.Int {
				b, ok := c19IntBig(val)
				if !ok {
					v = append(v, fmt.Sprintf("group %d unit %d: %s missing", gi, ui, what))
					return new(big.Int)
				}
				if b.Cmp(bi(lo)) < 0 || b.Cmp(bi(hi)) > 0 {
					v = append(v, fmt.Sprintf("group %d unit %d: %s %s not in [%d,%d]", gi, ui, what, b, lo, hi))
				}
				return b
			}
			var cpu, mem, sto *big.Int
			if r.Resources.CPU == nil {
				v = append(v, fmt.Sprintf("group %d unit %d: no cpu", gi, ui))
				cpu = new(big.Int)
			} else {
				cpu = within("cpu", r.Resources.CPU.Units.Val, uint64(cfg.MinUnitCPU), uint64(cfg.MaxUnitCPU))
			}
			if r.Resources.Memory == nil {
				v = append(v, fmt.Sprintf("group %d unit %d: no memory", gi, ui))
				mem = new(big.Int)
			} else {
				mem = within("memory", r.Resources.Memory.Quantity.Val, cfg.MinUnitMemory, cfg.MaxUnitMemory)
			}
			if r.Resources.Storage == nil {
				v = append(v, fmt.Sprintf("group %d unit %d: no storage", gi, ui))
				sto = new(big.Int)
			} else {
				sto = within("storage", r.Resources.Storage.Quantity.Val, cfg.MinUnitStorage, cfg.MaxUnitStorage)
			}
			if uint64(r.Count) < uint64(cfg.MinUnitCount) || uint64(r.Count) > uint64(cfg.MaxUnitCount) {
				v = append(v, fmt.Sprintf("group %d unit %d: replica count %d not in [%d,%d]", gi, ui, r.Count, cfg.MinUnitCount, cfg.MaxUnitCount))
			}
			c := bi(uint64(r.Count))
			totCPU.Add(totCPU, new(big.Int).Mul(cpu, c))
			totMem.Add(totMem, new(big.Int).Mul(mem, c))
			totSto.Add(totSto, new(big.Int).Mul(sto, c))
			if r.Price.Denom != cmDenom {
				v = append(v, fmt.Sprintf("group %d unit %d: price denom %q", gi, ui, r.Price.Denom))
			}
			if p, ok := c19IntBig(r.Price.Amount); !ok || p.Cmp(bi(cfg.MinUnitPrice)) < 0 || p.Cmp(bi(cfg.MaxUnitPrice)) > 0 {
				v = append(v, fmt.Sprintf("group %d unit %d: price %v not in [%d,%d]", gi, ui, p, cfg.MinUnitPrice, cfg.MaxUnitPrice))
			}
		}
		chk := func(what string, tot *big.Int, max uint64) {
			if tot.Sign() <= 0 || tot.Cmp(bi(max)) > 0 {
				v = append(v, fmt.Sprintf("group %d: total %s %s not in (0,%d]", gi, what, tot, max))
			}
		}
		chk("cpu", totCPU, cfg.MaxGroupCPU)
		chk("memory", totMem, cfg.MaxGroupMemory)
		chk("storage", totSto, cfg.MaxGroupStorage)
	}
	if len(msg.Version) != 32 {
		v = append(v, fmt.Sprintf("version length %d != 32", len(msg.Version)))
	}
	if d, ok := c19IntBig(msg.Deposit.Amount); !ok || msg.Deposit.Denom != minDeposit.Denom || d.Cmp(minDeposit.Amount.BigInt()) < 0 {
		v = append(v, fmt.Sprintf("deposit %v below minimum %s", msg.Deposit, minDeposit))
	}
	return v
}

func c19Unit(cpu, mem, sto uint64, count uint32, price int64) dtypes.Resource {
	return dtypes.Resource{
		Resources: akashtypes.ResourceUnits{
			CPU:     &akashtypes.CPU{Units: akashtypes.NewResourceValue(cpu)},
			Memory:  &akashtypes.Memory{Quantity: akashtypes.NewResourceValue(mem)},
			Storage: &akashtypes.Storage{Quantity: akashtypes.NewResourceValue(sto)},
		},
		Count: count,
		Price: cmCoin(price),
	}
}

// c19Gen builds a boundary-pushing create-deployment message and a description of it.
func c19Gen(t *rapid.T, owner string, dseq uint64, minDep int64) (*dtypes.MsgCreateDeployment, []string) {
	cfg := dtypes.GetValidationConfig()
	ng := rapid.SampledFrom([]int{1, 1, 1, 2, 3}).Draw(t, "baseGroups")
	msg := &dtypes.MsgCreateDeployment{ID: dtypes.DeploymentID{Owner: owner, DSeq: dseq}, Version: cmVersion(7), Deposit: cmCoin(minDep)}
	for g := 0; g < ng; g++ {
		gs := dtypes.GroupSpec{Name: fmt.Sprintf("grp%d", g)}
		nu := rapid.IntRange(1, 2).Draw(t, "baseUnits")
		for u := 0; u < nu; u++ {
			gs.Resources = append(gs.Resources, c19Unit(100, 16<<20, 64<<20, uint32(rapid.IntRange(1, 2).Draw(t, "baseCount")), int64(rapid.IntRange(1, 50).Draw(t, "basePrice"))))
		}
		msg.Groups = append(msg.Groups, gs)
	}
	var edits []string
	note := func(f string, a ...interface{}) { edits = append(edits, fmt.Sprintf(f, a...)) }
	bigVals := func(lo, hi uint64) []sdk.Int {
		two64 := new(big.Int).Lsh(big.NewInt(1), 64)
		two70 := new(big.Int).Lsh(big.NewInt(1), 70)
		out := []sdk.Int{
			sdk.NewIntFromUint64(lo), sdk.NewIntFromUint64(hi), sdk.NewIntFromUint64(hi + 1), sdk.NewIntFromUint64((lo + hi) / 2),
			sdk.NewIntFromUint64(1 << 63), sdk.NewIntFromUint64(1<<64 - 1), sdk.NewIntFromBigInt(two64), sdk.NewIntFromBigInt(two70), sdk.NewInt(-1), sdk.ZeroInt(),
		}
		if lo > 0 {
			out = append(out, sdk.NewIntFromUint64(lo-1))
		}
		return out
	}
	nEdits := rapid.IntRange(1, 3).Draw(t, "nEdits")
	for e := 0; e < nEdits; e++ {
		gi := rapid.IntRange(0, len(msg.Groups)-1).Draw(t, "group")
		if len(msg.Groups) == 0 {
			break
		}
		g := &msg.Groups[gi%maxInt(1, len(msg.Groups))]
		pickUnit := func() *dtypes.Resource {
			if len(g.Resources) == 0 {
				return nil
			}
			return &g.Resources[rapid.IntRange(0, len(g.Resources)-1).Draw(t, "unit")]
		}
		switch rapid.IntRange(0, 15).Draw(t, "edit") {
		case 0: // number of groups
			n := rapid.SampledFrom([]int{0, 1, 2, cfg.MaxGroupCount - 1, cfg.MaxGroupCount, cfg.MaxGroupCount + 1, cfg.MaxGroupCount + 5}).Draw(t, "groupCount")
			base := msg.Groups[0]
			msg.Groups = nil
			for i := 0; i < n; i++ {
				c := base
				c.Name = fmt.Sprintf("grp%d", i)
				c.Resources = append([]dtypes.Resource(nil), base.Resources...)
				msg.Groups = append(msg.Groups, c)
			}
			note("groups=%d", n)
			if n == 0 {
				return msg, edits
			}
		case 1: // number of units
			n := rapid.SampledFrom([]int{0, 1, 2, cfg.MaxGroupUnits - 1, cfg.MaxGroupUnits, cfg.MaxGroupUnits + 1}).Draw(t, "unitCount")
			base := c19Unit(50, 1<<20, 5<<20, 1, 1)
			g.Resources = nil
			for i := 0; i < n; i++ {
				g.Resources = append(g.Resources, base)
			}
			note("g%d.units=%d", gi, n)
		case 2:
			if u := pickUnit(); u != nil {
				x := rapid.SampledFrom(bigVals(uint64(cfg.MinUnitCPU), uint64(cfg.MaxUnitCPU))).Draw(t, "cpu")
				u.Resources.CPU = &akashtypes.CPU{Units: akashtypes.ResourceValue{Val: x}}
				note("g%d.cpu=%s", gi, x)
			}
		case 3:
			if u := pickUnit(); u != nil {
				x := rapid.SampledFrom(bigVals(cfg.MinUnitMemory, cfg.MaxUnitMemory)).Draw(t, "mem")
				u.Resources.Memory = &akashtypes.Memory{Quantity: akashtypes.ResourceValue{Val: x}}
				note("g%d.mem=%s", gi, x)
			}
		case 4:
			if u := pickUnit(); u != nil {
				x := rapid.SampledFrom(bigVals(cfg.MinUnitStorage, cfg.MaxUnitStorage)).Draw(t, "sto")
				u.Resources.Storage = &akashtypes.Storage{Quantity: akashtypes.ResourceValue{Val: x}}
				note("g%d.storage=%s", gi, x)
			}
		case 5:
			if u := pickUnit(); u != nil {
				c := rapid.SampledFrom([]uint32{0, 1, 2, uint32(cfg.MaxUnitCount) - 1, uint32(cfg.MaxUnitCount), uint32(cfg.MaxUnitCount) + 1, 1<<32 - 1}).Draw(t, "count")
				u.Count = c
				note("g%d.count=%d", gi, c)
			}
		case 6: // group totals at the group maximum +-1 through different factorisations
			dim := rapid.IntRange(0, 2).Draw(t, "dim")
			delta := rapid.SampledFrom([]int64{-1, 0, 1}).Draw(t, "delta")
			f := rapid.SampledFrom([]uint32{2, 4, 5}).Draw(t, "factor")
			switch dim {
			case 0: // cpu: MaxGroupCPU = f * x
				x := cfg.MaxGroupCPU / uint64(f)
				g.Resources = []dtypes.Resource{c19Unit(x, 1<<20, 5<<20, f, 1)}
				if delta != 0 {
					g.Resources = append(g.Resources, c19Unit(uint64(int64(cfg.MinUnitCPU)), 1<<20, 5<<20, 1, 1))
					if delta < 0 {
						g.Resources[0].Resources.CPU.Units = akashtypes.NewResourceValue(x - uint64(cfg.MinUnitCPU))
					}
				}
			case 1:
				x := cfg.MaxGroupMemory / uint64(f)
				g.Resources = []dtypes.Resource{c19Unit(100, x, 5<<20, f, 1)}
				if delta != 0 {
					g.Resources = append(g.Resources, c19Unit(100, cfg.MinUnitMemory, 5<<20, 1, 1))
					if delta < 0 {
						g.Resources[0].Resources.Memory.Quantity = akashtypes.NewResourceValue(x - cfg.MinUnitMemory)
					}
				}
			default:
				x := cfg.MaxGroupStorage / uint64(f)
				g.Resources = []dtypes.Resource{c19Unit(100, 1<<20, x, f, 1)}
				if delta != 0 {
					g.Resources = append(g.Resources, c19Unit(100, 1<<20, cfg.MinUnitStorage, 1, 1))
					if delta < 0 {
						g.Resources[0].Resources.Storage.Quantity = akashtypes.NewResourceValue(x - cfg.MinUnitStorage)
					}
				}
			}
			note("g%d.total(dim%d)=max%+d via x%d", gi, dim, delta, f)
		case 7:
			if u := pickUnit(); u != nil {
				switch rapid.IntRange(0, 2).Draw(t, "nil") {
				case 0:
					u.Resources.CPU = nil
				case 1:
					u.Resources.Memory = nil
				default:
					u.Resources.Storage = nil
				}
				note("g%d.nil-resource", gi)
			}
		case 8:
			if u := pickUnit(); u != nil {
				p := rapid.SampledFrom([]int64{0, 1, int64(cfg.MaxUnitPrice), int64(cfg.MaxUnitPrice) + 1, -1}).Draw(t, "price")
				u.Price = sdk.Coin{Denom: cmDenom, Amount: sdk.NewInt(p)}
				note("g%d.price=%d", gi, p)
			}
		case 9:
			if u := pickUnit(); u != nil {
				d := rapid.SampledFrom([]string{"stake", "uakt2", "", "UAKT"}).Draw(t, "denom")
				u.Price = sdk.Coin{Denom: d, Amount: sdk.NewInt(5)}
				note("g%d.denom=%q", gi, d)
			}
		case 10:
			n := rapid.SampledFrom([]string{"", "grp0", "grp1"}).Draw(t, "name")
			g.Name = n
			note("g%d.name=%q", gi, n)
		case 11:
			l := rapid.SampledFrom([]int{0, 31, 32, 33, 64}).Draw(t, "verlen")
			msg.Version = make([]byte, l)
			note("version-len=%d", l)
		case 12:
			switch rapid.IntRange(0, 3).Draw(t, "dep") {
			case 0:
				msg.Deposit = cmCoin(minDep - 1)
			case 1:
				msg.Deposit = sdk.NewInt64Coin("stake", minDep)
			case 2:
				msg.Deposit = sdk.Coin{Denom: cmDenom, Amount: sdk.NewInt(-5)}
			default:
				msg.Deposit = cmCoin(minDep + 1)
			}
			if rapid.IntRange(0, 3).Draw(t, "unaffordable") == 0 {
				msg.Deposit = cmCoin(2_000_000_000_000) // within the limits, but more than any account owns
			}
			note("deposit=%v", msg.Deposit)
		case 13: // overflow when multiplied by the replica count
			if u := pickUnit(); u != nil {
				u.Resources.Memory = &akashtypes.Memory{Quantity: akashtypes.NewResourceValue(1 << 62)}
				u.Count = 4
				note("g%d.mem=2^62 x4", gi)
			}
		case 15: // an amount outside [0, 2^64) whose low 64 bits look legal, compensated by a sibling unit so that the group total is legal
			dim := rapid.IntRange(0, 2).Draw(t, "dim2")
			lo := []uint64{uint64(cfg.MinUnitCPU), cfg.MinUnitMemory, cfg.MinUnitStorage}[dim]
			legal := new(big.Int).SetUint64(lo * 3)
			two64 := new(big.Int).Lsh(big.NewInt(1), 64)
			var bad, comp *big.Int
			if rapid.Bool().Draw(t, "negative") {
				bad = new(big.Int).Neg(legal)                 // -3*min: |v| is legal
				comp = new(big.Int).Mul(legal, big.NewInt(3)) // total = 2*legal > 0
			} else {
				bad = new(big.Int).Add(two64, new(big.Int).Mul(legal, big.NewInt(2))) // 2^64 + 6*min: low bits are legal
				comp = new(big.Int).Neg(new(big.Int).Add(two64, legal))               // -(2^64 + 3*min): |v| mod 2^64 legal; total = 3*min
			}
			mk := func(v *big.Int) dtypes.Resource {
				u := c19Unit(100, 16<<20, 64<<20, 1, 1)
				val := akashtypes.ResourceValue{Val: sdk.NewIntFromBigInt(v)}
				switch dim {
				case 0:
					u.Resources.CPU = &akashtypes.CPU{Units: val}
				case 1:
					u.Resources.Memory = &akashtypes.Memory{Quantity: val}
				default:
					u.Resources.Storage = &akashtypes.Storage{Quantity: val}
				}
				return u
			}
			g.Resources = []dtypes.Resource{mk(bad), mk(comp)}
			note("g%d.dim%d=%s compensated by %s", gi, dim, bad, comp)
		case 14: // uninitialised big integer (what a protobuf without the field decodes to is "0", a Go caller may pass nil)
			if u := pickUnit(); u != nil {
				u.Resources.CPU = &akashtypes.CPU{}
				note("g%d.cpu=<unset>", gi)
			}
		}
	}
	return msg, edits
}

func maxInt(a, b int) int {
	if a > b {
		return a
	}
	return b
}

func c19Render(msg *dtypes.MsgCreateDeployment, edits []string) string {
	var sb strings.Builder
	fmt.Fprintf(&sb, "edits=%v groups=%d", edits, len(msg.Groups))
	for _, g := range msg.Groups {
		fmt.Fprintf(&sb, " [%q:%d units]", g.Name, len(g.Resources))
	}
	return sb.String()
}

// c19Admit runs ValidateBasic and, if it passes, the deployment handler on a discarded
// branch. A panic is a rejection, exactly as in baseapp.runTx.
func c19Admit(m *chainMachine, msg *dtypes.MsgCreateDeployment) (admitted bool, why string) {
	defer func() {
		if r := recover(); r != nil {
			admitted, why = false, fmt.Sprintf("panic: %v", r)
		}
	}()
	if err := msg.ValidateBasic(); err != nil {
		return false, "ValidateBasic: " + err.Error()
	}
	var h sdk.Handler
	for _, mod := range m.app.mm.Modules {
		if r := mod.Route(); r.Path() == msg.Route() {
			h = r.Handler()
		}
	}
	cctx, _ := m.ctx().CacheContext()
	if _, err := h(cctx.WithEventManager(sdk.NewEventManager()), msg); err != nil {
		return false, "handler: " + err.Error()
	}
	// what was stored must satisfy the clauses too
	return true, ""
}

func TestVerif_C19_Direct(t *testing.T) {
	vsInit("C19", c19Rule)
	defer vsFlush()
	admittedN, rejectedN, validRejected := 0, 0, 0
	defer func() {
		vsExtra("c19_admitted", admittedN)
		vsExtra("c19_rejected", rejectedN)
		vsExtra("c19_valid_by_oracle_but_rejected(statistic)", validRejected)
	}()
	var base *chainMachine
	rapid.Check(t, func(t *rapid.T) {
		if base == nil {
			// one application instance for the whole run; every case works on a discarded branch
			base = &chainMachine{t: t, prop: "C19", oracle: cmBaseOracle{}, labels: map[string]bool{}, byAddr: map[string]*cmActor{},
				msgStat: map[string][2]int{}, payCreated: map[string]int64{}, payClosed: map[string]int64{}}
			base.actors = cmNewActors()
			base.params = cmParams{depMin: 5_000_000, bidMin: 50_000_000}
			base.app = cmNewApp(base.actors, base.params)
			base.beginBlock(1)
		}
		m := base
		m.t = t
		minDep := sdk.NewInt64Coin(cmDenom, m.params.depMin)
		msg, edits := c19Gen(t, m.actors[0].bech, uint64(rapid.IntRange(1, 1000).Draw(t, "dseq")), m.params.depMin)
		viol := c19Violations(msg, minDep)
		admitted, why := c19Admit(m, msg)
		render := c19Render(msg, edits)
		vsCase("C19|"+render, len(edits) > 0, fmt.Sprintf("violated-clauses:%d", minInt(len(viol), 3)))
		if admitted {
			admittedN++
			if len(viol) > 0 {
				key := "c19-admitted-out-of-limits"
				if vsKnown(key) {
					return
				}
				t.Fatalf("C19 VIOLATION key=%s: create-deployment ADMITTED although: %s\n-- message: %s", key, strings.Join(viol, "; "), render)
			}
		} else {
			rejectedN++
			if len(viol) == 0 {
				validRejected++
				vsNote("within limits by the oracle but rejected: " + why + " :: " + render)
			}
		}
	})
}

func minInt(a, b int) int {
	if a < b {
		return a
	}
	return b
}

// ---- chain-machine part: signed transactions + stored-state invariant --------------------

type cmC19 struct {
	cmBaseOracle
	boundaryTx bool
}

func (o *cmC19) afterTx(m *chainMachine, tx *cmTx) {
	minDep := sdk.NewInt64Coin(cmDenom, m.params.depMin)
	if msg, ok := tx.msg.(*dtypes.MsgCreateDeployment); ok && !tx.twin {
		viol := c19Violations(msg, minDep)
		if tx.ok && len(viol) > 0 {
			m.fatalf("c19-admitted-out-of-limits", "%s was ADMITTED although: %s", tx.label, strings.Join(viol, "; "))
		}
		if !tx.ok {
			if d := cmRawDiff(tx.pre, tx.post); len(d) > 0 {
				m.fatalf("c19-rejected-with-effect", "%s was rejected but changed state: %v", tx.label, d)
			}
		} else {
			// "the deployment carries ... at least the minimum deposit": the deposit it declared is in escrow
			a, found := tx.post.account(dtypes.EscrowAccountForDeployment(msg.ID))
			if !found || a.Balance.Amount.Add(a.Transferred.Amount).LT(msg.Deposit.Amount) || a.Balance.Amount.Add(a.Transferred.Amount).LT(minDep.Amount) {
				m.fatalf("c19-admitted-without-deposit", "%s was ADMITTED but its escrow account holds %s (found=%v), declared deposit %s, minimum %s", tx.label, fmtAcc(a, found), found, msg.Deposit, minDep)
			}
		}
	}
	// every stored deployment satisfies the clauses (rebuild the message shape from the store)
	cfg := dtypes.GetValidationConfig()
	perDep := map[dtypes.DeploymentID][]dtypes.GroupSpec{}
	for _, g := range tx.post.groups {
		perDep[g.GroupID.DeploymentID()] = append(perDep[g.GroupID.DeploymentID()], g.GroupSpec)
	}
	for _, d := range tx.post.deployments {
		gs := perDep[d.DeploymentID]
		stored := &dtypes.MsgCreateDeployment{ID: d.DeploymentID, Groups: gs, Version: d.Version, Deposit: minDep}
		if viol := c19Violations(stored, minDep); len(viol) > 0 {
			m.fatalf("c19-stored-out-of-limits", "after %s: stored deployment %s/%d violates: %s", tx.label, m.nameOf(d.DeploymentID.Owner), d.DeploymentID.DSeq, strings.Join(viol, "; "))
		}
		if len(gs) > cfg.MaxGroupCount {
			m.fatalf("c19-stored-out-of-limits", "stored deployment has %d groups", len(gs))
		}
	}
}

func (o *cmC19) nontrivial(m *chainMachine) bool { return o.boundaryTx }

func TestVerif_C19_Chain(t *testing.T) {
	vsInit("C19", c19Rule)
	prof := cmProfile{weights: map[string]int{"deployCreate": 2, "marketRound": 2, "advance": 2, "boundaryDeploy": 8, "govParamChange": 2, "wrongSigner": 1,
		"provider": 1, "audit": 0, "cert": 0, "deployClose": 1, "groupClose": 1, "groupPause": 1, "groupStart": 1}}
	cmRun(t, "C19", "chain-machine history containing a signed boundary-pushing create-deployment transaction", func() cmOracle { return &cmC19{} }, prof, false)
}

// aBoundaryDeploy delivers a c19Gen message as a signed transaction.
func (m *chainMachine) aBoundaryDeploy(t *rapid.T) {
	ten := m.tenants()[m.pick(t, "tenant", 3)]
	dseq := rapid.SampledFrom(cmDSeqs).Draw(t, "dseq")
	msg, edits := c19Gen(t, ten.bech, dseq, m.params.depMin)
	if o, ok := m.oracle.(*cmC19); ok {
		o.boundaryTx = true
	}
	func() {
		defer func() {
			// building sign bytes for a message with unset big integers can panic in the
			// encoder before anything reaches the application: such a message cannot be sent
			if r := recover(); r != nil {
				if _, isKF := r.(cmKnownFinding); isKF {
					panic(r)
				}
				if strings.Contains(fmt.Sprintf("%T", r), "rapid") {
					panic(r)
				}
				m.logop("boundary message not encodable: %v", edits)
			}
		}()
		route := ""
		if rapid.IntRange(0, 2).Draw(t, "msgServiceRoute") == 0 {
			m.svcRoute = true
			defer func() { m.svcRoute = false }()
			route = " [Msg service route]"
			m.label("msg-service-route")
		}
		m.deliver(fmt.Sprintf("CreateDeployment[boundary %v](%s/%d)%s", edits, ten.name, dseq, route), msg, ten)
	}()
}
