package manifest

// C20 (end to end): the exported Service.Submit under generated timings of lease events,
// chain-fetch completions, version updates, lease removal, deployment close and shutdown,
// with several concurrent submitters. The interleaving between the bus, the request
// channel and the managers is NOT owned by the harness here, so only schedule-independent
// relations are asserted:
//   * every Submit call returns (no hang) once nothing it can wait for is outstanding,
//     and at the latest after shutdown,
//   * an accepted submission was valid, carried a version recorded on chain (or announced
//     by an update event), and a lease had been announced and chain data fetched before it returned,
//   * every ManifestReceived names a lease that was announced and carries chain data.

import (
	"context"
	"errors"
	"fmt"
	"strings"
	"sync"
	"testing"
	"time"

	"github.com/cosmos/cosmos-sdk/crypto/keys/secp256k1"
	sdk "github.com/cosmos/cosmos-sdk/types"
	"github.com/stretchr/testify/mock"
	"github.com/tendermint/tendermint/libs/log"
	"google.golang.org/grpc"
	"pgregory.net/rapid"

	clientmocks "github.com/ovrclk/akash/client/mocks"
	"github.com/ovrclk/akash/manifest"
	"github.com/ovrclk/akash/provider/cluster"
	"github.com/ovrclk/akash/provider/event"
	"github.com/ovrclk/akash/provider/session"
	"github.com/ovrclk/akash/pubsub"
	"github.com/ovrclk/akash/sdl"
	dtypes "github.com/ovrclk/akash/x/deployment/types"
	mtypes "github.com/ovrclk/akash/x/market/types"
	ptypes "github.com/ovrclk/akash/x/provider/types"
)

type c20sFetch struct {
	did dtypes.DeploymentID
	ch  chan c20FetchResult
}

type c20sQuery struct {
	*clientmocks.QueryClient
	calls chan c20sFetch
}

func (q *c20sQuery) Deployment(ctx context.Context, in *dtypes.QueryDeploymentRequest, opts ...grpc.CallOption) (*dtypes.QueryDeploymentResponse, error) {
	f := c20sFetch{did: in.ID, ch: make(chan c20FetchResult, 1)}
	q.calls <- f
	r := <-f.ch
	return r.res, r.err
}

type c20sCall struct {
	id       int
	did      dtypes.DeploymentID
	kind     string
	hash     string
	valid    bool
	done     chan struct{}
	err      error
	snapshot c20sFacts // facts known when the call returned
}

type c20sFacts struct {
	leaseAnnounced bool
	fetchedOK      bool
	versions       map[string]bool
}

func TestVerif_C20_Service(t *testing.T) {
	vsInit("C20", c20Rule)
	defer vsFlush()
	rapid.Check(t, func(t *rapid.T) {
		provider := sdk.AccAddress(secp256k1.GenPrivKeyFromSecret([]byte("verif-c20s-prov")).PubKey().Address())
		owner := sdk.AccAddress(secp256k1.GenPrivKeyFromSecret([]byte("verif-c20s-owner")).PubKey().Address())
		nDep := rapid.IntRange(1, 2).Draw(t, "deployments")
		dids := []dtypes.DeploymentID{{Owner: owner.String(), DSeq: 9}, {Owner: owner.String(), DSeq: 91}}[:nDep]
		dgroupOf := func(did dtypes.DeploymentID) dtypes.Group {
			u := c20RU()
			return dtypes.Group{GroupID: dtypes.GroupID{Owner: did.Owner, DSeq: did.DSeq, GSeq: 1}, State: dtypes.GroupOpen,
				GroupSpec: dtypes.GroupSpec{Name: "g", Resources: []dtypes.Resource{{Resources: u, Count: 2, Price: sdk.NewInt64Coin("uakt", 1)}}}}
		}
		leaseOf := func(did dtypes.DeploymentID, n int) mtypes.LeaseID {
			return mtypes.LeaseID{Owner: did.Owner, DSeq: did.DSeq, GSeq: 1, OSeq: uint32(n + 1), Provider: provider.String()}
		}
		v0 := func() []byte { h, _ := sdl.ManifestVersion(c20sManifest(0, 2)); return h }()
		v1 := func() []byte { h, _ := sdl.ManifestVersion(c20sManifest(1, 2)); return h }()

		bus := pubsub.NewBus()
		defer bus.Close()
		evsub, err := bus.Subscribe()
		if err != nil {
			t.Fatalf("subscribe: %v", err)
		}
		qm := &clientmocks.QueryClient{}
		qm.On("ActiveLeasesForProvider", mock.Anything).Return(nil, nil)
		q := &c20sQuery{QueryClient: qm, calls: make(chan c20sFetch, 64)}
		cm := &clientmocks.Client{}
		cm.On("Query").Return(q)
		cm.On("Tx").Return(nil)
		sess := session.New(log.NewNopLogger(), cm, &ptypes.Provider{Owner: provider.String()})
		hostnames := &cluster.SimpleHostnames{Hostnames: map[string]dtypes.DeploymentID{}}
		ctx, cancel := context.WithCancel(context.Background())
		defer cancel()
		svc, err := NewService(ctx, sess, bus, hostnames, ServiceConfig{})
		if err != nil {
			t.Fatalf("NewService: %v", err)
		}

		var mu sync.Mutex
		facts := map[dtypes.DeploymentID]*c20sFacts{}
		announcedLeases := map[mtypes.LeaseID]bool{}
		for _, d := range dids {
			facts[d] = &c20sFacts{versions: map[string]bool{}}
		}
		var calls []*c20sCall
		var sched []string
		note := func(f string, a ...interface{}) { sched = append(sched, fmt.Sprintf(f, a...)) }
		fail := func(key, f string, a ...interface{}) {
			t.Fatalf("C20 VIOLATION key=%s: %s\n-- schedule: %v", key, fmt.Sprintf(f, a...), sched)
		}
		var pending []c20sFetch
		takeFetches := func() {
			for {
				select {
				case f := <-q.calls:
					pending = append(pending, f)
				default:
					return
				}
			}
		}
		answer := func(f c20sFetch, ok bool) {
			if ok {
				// facts are recorded BEFORE the result is released so that "fetched before the call returned" is sound
				mu.Lock()
				facts[f.did].fetchedOK = true
				facts[f.did].versions[string(v0)] = true
				mu.Unlock()
				f.ch <- c20FetchResult{res: &dtypes.QueryDeploymentResponse{Deployment: dtypes.Deployment{DeploymentID: f.did, State: dtypes.DeploymentActive, Version: v0}, Groups: []dtypes.Group{dgroupOf(f.did)}}}
			} else {
				f.ch <- c20FetchResult{err: errors.New("verif: chain unavailable")}
			}
		}
		interesting := false
		inFlight := func() int {
			n := 0
			for _, c := range calls {
				select {
				case <-c.done:
				default:
					n++
				}
			}
			return n
		}
		shutdown := false
		leaseCount := map[dtypes.DeploymentID]int{}

		steps := rapid.IntRange(3, 12).Draw(t, "steps")
		for i := 0; i < steps && !shutdown; i++ {
			takeFetches()
			did := dids[rapid.IntRange(0, len(dids)-1).Draw(t, "dep")]
			switch rapid.IntRange(0, 11).Draw(t, "action") {
			case 0, 1, 2, 3: // submit
				kind := rapid.SampledFrom([]string{"valid", "valid", "valid", "wrong-version", "count-mismatch", "valid-updated"}).Draw(t, "kind")
				var mf manifest.Manifest
				valid := true
				switch kind {
				case "valid":
					mf = c20sManifest(0, 2)
				case "valid-updated":
					mf = c20sManifest(1, 2)
				case "wrong-version":
					mf = c20sManifest(5+i, 2)
				default:
					mf, valid = c20sManifest(0, 3), false
				}
				h, _ := sdl.ManifestVersion(mf)
				c := &c20sCall{id: len(calls), did: did, kind: kind, hash: string(h), valid: valid, done: make(chan struct{})}
				calls = append(calls, c)
				note("submit#%d(dseq=%d,%s)", c.id, did.DSeq, kind)
				go func() {
					e := svc.Submit(context.Background(), did, mf)
					mu.Lock()
					f := facts[did]
					c.snapshot = c20sFacts{leaseAnnounced: f.leaseAnnounced, fetchedOK: f.fetchedOK, versions: map[string]bool{}}
					for k := range f.versions {
						c.snapshot.versions[k] = true
					}
					mu.Unlock()
					c.err = e
					close(c.done)
				}()
			case 4, 5: // lease won
				l := leaseOf(did, leaseCount[did])
				leaseCount[did]++
				g := dgroupOf(did)
				mu.Lock()
				facts[did].leaseAnnounced = true
				announcedLeases[l] = true
				mu.Unlock()
				note("lease-won(dseq=%d,oseq=%d)", did.DSeq, l.OSeq)
				_ = bus.Publish(event.LeaseWon{LeaseID: l, Group: &g, Price: sdk.NewInt64Coin("uakt", 1)})
			case 6, 7: // a chain fetch completes
				if len(pending) == 0 {
					time.Sleep(time.Millisecond)
					continue
				}
				idx := rapid.IntRange(0, len(pending)-1).Draw(t, "fetch")
				ok := rapid.IntRange(0, 3).Draw(t, "fetchOK") > 0
				f := pending[idx]
				pending = append(pending[:idx], pending[idx+1:]...)
				if inFlight() > 0 {
					interesting = true
				}
				note("fetch(dseq=%d,%v)", f.did.DSeq, ok)
				answer(f, ok)
			case 8: // version update on chain
				mu.Lock()
				facts[did].versions[string(v1)] = true
				mu.Unlock()
				note("version-updated(dseq=%d)", did.DSeq)
				_ = bus.Publish(dtypes.EventDeploymentUpdated{ID: did, Version: v1})
			case 9: // lease closed
				if leaseCount[did] == 0 {
					continue
				}
				if inFlight() > 0 {
					interesting = true
				}
				l := leaseOf(did, rapid.IntRange(0, leaseCount[did]-1).Draw(t, "lease"))
				note("lease-closed(dseq=%d,oseq=%d)", did.DSeq, l.OSeq)
				_ = bus.Publish(mtypes.EventLeaseClosed{ID: l})
			case 10: // deployment closed
				if inFlight() > 0 {
					interesting = true
				}
				note("deployment-closed(dseq=%d)", did.DSeq)
				_ = bus.Publish(dtypes.EventDeploymentClosed{ID: did})
			default:
				if rapid.IntRange(0, 2).Draw(t, "reallyShutdown") == 0 {
					if inFlight() > 0 {
						interesting = true
					}
					note("shutdown")
					shutdown = true
					cancel()
				} else {
					time.Sleep(time.Duration(rapid.IntRange(1, 3).Draw(t, "pauseMs")) * time.Millisecond)
				}
			}
		}
		// ---- quiescence: answer every fetch (ok), then every Submit must return
		note("drain")
		waitAll := func(what string) {
			deadline := time.Now().Add(c20Wait)
			for _, c := range calls {
				for {
					takeFetches()
					for len(pending) > 0 {
						f := pending[0]
						pending = pending[1:]
						answer(f, true)
					}
					select {
					case <-c.done:
					case <-time.After(2 * time.Millisecond):
						if time.Now().After(deadline) {
							fail("c20-submit-hangs", "Submit #%d (%s, dseq=%d) has not returned %v after %s although every chain fetch was answered", c.id, c.kind, c.did.DSeq, c20Wait, what)
						}
						continue
					}
					break
				}
			}
		}
		waitAll("the schedule ended")
		if !shutdown {
			cancel()
		}
		// managers wait for their in-flight chain fetch before they terminate: keep answering
		stopDeadline := time.Now().Add(c20Wait)
	waitDone:
		for {
			takeFetches()
			for len(pending) > 0 {
				f := pending[0]
				pending = pending[1:]
				answer(f, true)
			}
			select {
			case <-svc.Done():
				break waitDone
			case <-time.After(time.Millisecond):
				if time.Now().After(stopDeadline) {
					fail("c20-service-never-stops", "the manifest service did not terminate within %v after shutdown", c20Wait)
				}
			}
		}
		// a Submit after shutdown returns as well
		lateDone := make(chan error, 1)
		go func() { lateDone <- svc.Submit(context.Background(), dids[0], c20sManifest(0, 2)) }()
		select {
		case e := <-lateDone:
			if e == nil {
				fail("c20-accepted-wrongly", "a submission to a stopped service was accepted")
			}
		case <-time.After(c20Wait):
			fail("c20-submit-hangs", "Submit to a stopped service blocks")
		}
		// ---- acceptance is justified
		for _, c := range calls {
			if c.err != nil {
				continue
			}
			if !c.valid || !c.snapshot.leaseAnnounced || !c.snapshot.fetchedOK || !c.snapshot.versions[c.hash] {
				fail("c20-accepted-wrongly", "Submit #%d (%s, dseq=%d) was ACCEPTED although valid=%v leaseAnnounced=%v chainDataFetched=%v versionKnown=%v", c.id, c.kind, c.did.DSeq, c.valid, c.snapshot.leaseAnnounced, c.snapshot.fetchedOK, c.snapshot.versions[c.hash])
			}
		}
		// ---- announcements
	drainEvents:
		for {
			select {
			case ev := <-evsub.Events():
				if x, ok := ev.(event.ManifestReceived); ok {
					mu.Lock()
					held := announcedLeases[x.LeaseID]
					mu.Unlock()
					if !held {
						fail("c20-announce-without-lease", "a manifest was announced for lease %v which was never won", x.LeaseID)
					}
					if x.Deployment == nil || x.Manifest == nil {
						fail("c20-announce-without-data", "a manifest was announced without chain data / manifest")
					}
					h, _ := sdl.ManifestVersion(*x.Manifest)
					mu.Lock()
					known := facts[x.LeaseID.DeploymentID()].versions[string(h)]
					mu.Unlock()
					if !known {
						fail("c20-announce-unvalidated", "the announced manifest's hash %x matches no version recorded on chain for the deployment", h[:4])
					}
				}
			case <-time.After(5 * time.Millisecond):
				break drainEvents
			}
		}
		vsCase("C20svc|"+strings.Join(sched, ";"), interesting)
	})
}

func c20sManifest(variant int, count uint32) manifest.Manifest {
	return c20Manifest(variant, "", count, false)
}
