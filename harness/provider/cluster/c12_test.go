package cluster

// C12 — inventory never over-commits and accounts exactly.
// A live inventoryService over a scripted cluster client; rapid state machine over
// reserve / unreserve / status / deployment events / snapshot changes; a twin service that
// is never asked for its status must take the same reserve decisions.

import (
	"context"
	"fmt"
	"math"
	"sort"
	"strings"
	"sync"
	"testing"
	"time"

	"github.com/tendermint/tendermint/libs/log"
	"io"
	"k8s.io/client-go/tools/remotecommand"
	"pgregory.net/rapid"

	"github.com/ovrclk/akash/manifest"
	ctypes "github.com/ovrclk/akash/provider/cluster/types"
	"github.com/ovrclk/akash/provider/event"
	"github.com/ovrclk/akash/pubsub"
	atypes "github.com/ovrclk/akash/types"
	dtypes "github.com/ovrclk/akash/x/deployment/types"
	mtypes "github.com/ovrclk/akash/x/market/types"
)

const c12Rule = "history in which a reservation with >=2 resource units exists while status is queried twice in a row, or a reserve request is decided while >=1 other reservation is pending"

const c12Wait = 20 * time.Second

// ---- scripted cluster client -------------------------------------------------------------------

type c12Client struct {
	mu    sync.Mutex
	nodes []ctypes.Node
	calls int
	cond  *sync.Cond
}

func newC12Client() *c12Client {
	c := &c12Client{}
	c.cond = sync.NewCond(&c.mu)
	return c
}

func (c *c12Client) setNodes(n []ctypes.Node) {
	c.mu.Lock()
	c.nodes = n
	c.mu.Unlock()
}

func (c *c12Client) Inventory(context.Context) ([]ctypes.Node, error) {
	c.mu.Lock()
	defer c.mu.Unlock()
	c.calls++
	c.cond.Broadcast()
	return append([]ctypes.Node(nil), c.nodes...), nil
}

func (c *c12Client) callCount() int {
	c.mu.Lock()
	defer c.mu.Unlock()
	return c.calls
}

// waitCalls waits until Inventory() has been called at least n times.
func (c *c12Client) waitCalls(n int) bool {
	deadline := time.Now().Add(c12Wait)
	for {
		if c.callCount() >= n {
			return true
		}
		if time.Now().After(deadline) {
			return false
		}
		time.Sleep(200 * time.Microsecond)
	}
}

func (c *c12Client) Deploy(context.Context, mtypes.LeaseID, *manifest.Group) error { return nil }
func (c *c12Client) TeardownLease(context.Context, mtypes.LeaseID) error           { return nil }
func (c *c12Client) Deployments(context.Context) ([]ctypes.Deployment, error)      { return nil, nil }
func (c *c12Client) LeaseStatus(context.Context, mtypes.LeaseID) (*ctypes.LeaseStatus, error) {
	return nil, nil
}
func (c *c12Client) LeaseEvents(context.Context, mtypes.LeaseID, string, bool) (ctypes.EventsWatcher, error) {
	return nil, nil
}
func (c *c12Client) LeaseLogs(context.Context, mtypes.LeaseID, string, bool, *int64) ([]*ctypes.ServiceLog, error) {
	return nil, nil
}
func (c *c12Client) ServiceStatus(context.Context, mtypes.LeaseID, string) (*ctypes.ServiceStatus, error) {
	return nil, nil
}
func (c *c12Client) Exec(ctx context.Context, lID mtypes.LeaseID, service string, podIndex uint, cmd []string, stdin io.Reader, stdout io.Writer, stderr io.Writer, tty bool, tsq remotecommand.TerminalSizeQueue) (ctypes.ExecResult, error) {
	return nil, nil
}

// ---- model ------------------------------------------------------------------------------------------

type c12Unit struct {
	cpu, mem, sto uint64
	count         uint32
	endpoints     int
}

type c12Res struct {
	order  mtypes.OrderID
	group  string
	units  []c12Unit
	active bool
	total  string // first observed status entry
}

func c12RU(cpu, mem, sto uint64) atypes.ResourceUnits {
	return atypes.ResourceUnits{
		CPU:     &atypes.CPU{Units: atypes.NewResourceValue(cpu)},
		Memory:  &atypes.Memory{Quantity: atypes.NewResourceValue(mem)},
		Storage: &atypes.Storage{Quantity: atypes.NewResourceValue(sto)},
	}
}

func c12Group(name string, units []c12Unit) *dtypes.GroupSpec {
	g := &dtypes.GroupSpec{Name: name}
	for _, u := range units {
		ru := c12RU(u.cpu, u.mem, u.sto)
		for i := 0; i < u.endpoints; i++ {
			ru.Endpoints = append(ru.Endpoints, atypes.Endpoint{Kind: atypes.Endpoint_RANDOM_PORT})
		}
		g.Resources = append(g.Resources, dtypes.Resource{Resources: ru, Count: u.count})
	}
	return g
}

// consecutive orders come in pairs that differ in the order sequence only (an order re-issued
// for the same deployment group after the previous lease ended)
func c12O(o mtypes.OrderID) string { return fmt.Sprintf("%d.%d", o.DSeq, o.OSeq) }

func c12Order(i int) mtypes.OrderID {
	return mtypes.OrderID{Owner: "owner", DSeq: uint64(i/2 + 1), GSeq: 1, OSeq: uint32(i%2 + 1)}
}

// lenient scaling: floor(v / factor) (>= 0), so that only over-commitment is flagged
func c12Scale(v uint64, factor float64) uint64 {
	if factor <= 1 {
		return v
	}
	return uint64(math.Floor(float64(v) / factor))
}

type c12Item struct{ cpu, mem, sto uint64 }

// c12Packable: exact search — can all items be placed on the nodes?
func c12Packable(nodes [][3]uint64, classes []c12Item, counts []int) bool {
	if len(classes) == 0 {
		return true
	}
	cl, cnt := classes[0], counts[0]
	var rec func(node, left int) bool
	rec = func(node, left int) bool {
		if left == 0 {
			return c12Packable(nodes, classes[1:], counts[1:])
		}
		if node == len(nodes) {
			return false
		}
		// how many fit on this node
		max := left
		for _, d := range [][2]uint64{{cl.cpu, nodes[node][0]}, {cl.mem, nodes[node][1]}, {cl.sto, nodes[node][2]}} {
			if d[0] > 0 {
				if m := int(d[1] / d[0]); m < max {
					max = m
				}
			}
		}
		for k := max; k >= 0; k-- {
			nodes[node][0] -= cl.cpu * uint64(k)
			nodes[node][1] -= cl.mem * uint64(k)
			nodes[node][2] -= cl.sto * uint64(k)
			ok := rec(node+1, left-k)
			nodes[node][0] += cl.cpu * uint64(k)
			nodes[node][1] += cl.mem * uint64(k)
			nodes[node][2] += cl.sto * uint64(k)
			if ok {
				return true
			}
		}
		return false
	}
	return rec(0, cnt)
}

type c12Svc struct {
	is     *inventoryService
	bus    pubsub.Bus
	client *c12Client
	donech chan struct{}
}

func c12Start(cfg Config, nodes []ctypes.Node) (*c12Svc, error) {
	s := &c12Svc{bus: pubsub.NewBus(), client: newC12Client(), donech: make(chan struct{})}
	s.client.setNodes(nodes)
	sub, err := s.bus.Subscribe()
	if err != nil {
		return nil, err
	}
	is, err := newInventoryService(cfg, log.NewNopLogger(), s.donech, sub, s.client, nil)
	if err != nil {
		return nil, err
	}
	s.is = is
	select {
	case <-is.ready():
	case <-time.After(c12Wait):
		return nil, fmt.Errorf("inventory service never became ready")
	}
	return s, nil
}

func (s *c12Svc) stop() {
	close(s.donech)
	s.bus.Close()
}

func c12Fmt(u atypes.ResourceUnits) string {
	f := func(x *atypes.ResourceValue) string {
		if x == nil || x.Val.IsNil() {
			return "nil"
		}
		return x.Val.String()
	}
	var c, m, st *atypes.ResourceValue
	if u.CPU != nil {
		c = &u.CPU.Units
	}
	if u.Memory != nil {
		m = &u.Memory.Quantity
	}
	if u.Storage != nil {
		st = &u.Storage.Quantity
	}
	return fmt.Sprintf("cpu=%s mem=%s sto=%s", f(c), f(m), f(st))
}

func TestVerif_C12(t *testing.T) {
	vsInit("C12", c12Rule)
	defer vsFlush()
	rapid.Check(t, func(t *rapid.T) {
		lv := []float64{0.5, 1, 2, 3.7}
		cfg := Config{
			InventoryResourcePollPeriod:     time.Hour,
			InventoryResourceDebugFrequency: 1,
			InventoryExternalPortQuantity:   uint(rapid.IntRange(0, 5).Draw(t, "ports")),
			CPUCommitLevel:                  rapid.SampledFrom(lv).Draw(t, "cpuCommit"),
			MemoryCommitLevel:               rapid.SampledFrom(lv).Draw(t, "memCommit"),
			StorageCommitLevel:              rapid.SampledFrom(lv).Draw(t, "stoCommit"),
		}
		genNodes := func() ([]ctypes.Node, [][3]uint64) {
			n := rapid.IntRange(1, 3).Draw(t, "nodes")
			var nodes []ctypes.Node
			var caps [][3]uint64
			for i := 0; i < n; i++ {
				c := [3]uint64{uint64(rapid.IntRange(0, 14).Draw(t, "ncpu")), uint64(rapid.IntRange(2, 14).Draw(t, "nmem")), uint64(rapid.IntRange(2, 14).Draw(t, "nsto"))}
				caps = append(caps, c)
				nodes = append(nodes, NewNode(fmt.Sprintf("n%d", i), c12RU(10, 10, 10), c12RU(c[0], c[1], c[2])))
			}
			return nodes, caps
		}
		nodes, caps := genNodes()
		var ops []string
		logop := func(f string, a ...interface{}) { ops = append(ops, fmt.Sprintf(f, a...)) }
		logop("cfg(ports=%d commit=%v/%v/%v) nodes=%v", cfg.InventoryExternalPortQuantity, cfg.CPUCommitLevel, cfg.MemoryCommitLevel, cfg.StorageCommitLevel, caps)
		nontrivial := false
		defer func() { vsCase("C12|"+strings.Join(ops, ";"), nontrivial) }()
		fail := func(key, f string, a ...interface{}) {
			t.Fatalf("C12 VIOLATION key=%s: %s\n-- history:\n  %s", key, fmt.Sprintf(f, a...), strings.Join(ops, "\n  "))
		}

		A, err := c12Start(cfg, nodes)
		if err != nil {
			t.Fatalf("VERIF-INCONCLUSIVE start: %v", err)
		}
		defer A.stop()
		B, err := c12Start(cfg, nodes) // twin: never asked for status
		if err != nil {
			t.Fatalf("VERIF-INCONCLUSIVE start twin: %v", err)
		}
		defer B.stop()

		var model []*c12Res
		effective := caps // snapshot returned by the last Inventory() call
		pendingSnapshot := caps
		lastWasStatusWithMulti := false

		statusEntries := func(s *c12Svc) (pending, active []string, avail []string) {
			ctx, cancel := context.WithTimeout(context.Background(), c12Wait)
			defer cancel()
			st, err := s.is.status(ctx)
			if err != nil {
				fail("c12-status-error", "status(): %v", err)
			}
			if st.Error != nil {
				fail("c12-status-error", "status reports error %v", st.Error)
			}
			for _, p := range st.Pending {
				pending = append(pending, c12Fmt(p))
			}
			for _, p := range st.Active {
				active = append(active, c12Fmt(p))
			}
			for _, p := range st.Available {
				avail = append(avail, c12Fmt(p))
			}
			return
		}
		checkStatus := func(what string) {
			pend, act, _ := statusEntries(A)
			var mp, ma []*c12Res
			for _, r := range model {
				if r.active {
					ma = append(ma, r)
				} else {
					mp = append(mp, r)
				}
			}
			if len(pend) != len(mp) || len(act) != len(ma) {
				fail("c12-status-count", "%s: status lists %d pending + %d active reservations, %d + %d are outstanding", what, len(pend), len(act), len(mp), len(ma))
			}
			cmp := func(list []string, rs []*c12Res, kind string) {
				for i, r := range rs {
					if r.total == "" {
						r.total = list[i]
						continue
					}
					if r.total != list[i] {
						fail("c12-status-amount-changed", "%s: %s reservation of order %d (%d units) was reported as [%s] before and is reported as [%s] now", what, kind, r.order.DSeq, len(r.units), r.total, list[i])
					}
				}
			}
			cmp(pend, mp, "pending")
			cmp(act, ma, "active")
		}
		// decision oracle: a grant must be packable
		grantOK := func(newUnits []c12Unit) (bool, string) {
			var classes []c12Item
			var counts []int
			ports := 0
			add := func(units []c12Unit) {
				for _, u := range units {
					it := c12Item{c12Scale(u.cpu, cfg.CPUCommitLevel), c12Scale(u.mem, cfg.MemoryCommitLevel), c12Scale(u.sto, cfg.StorageCommitLevel)}
					found := false
					for i := range classes {
						if classes[i] == it {
							counts[i] += int(u.count)
							found = true
						}
					}
					if !found {
						classes = append(classes, it)
						counts = append(counts, int(u.count))
					}
					ports += u.endpoints
				}
			}
			activePorts := 0
			for _, r := range model {
				if r.active {
					for _, u := range r.units {
						activePorts += u.endpoints
					}
				} else {
					add(r.units)
				}
			}
			add(newUnits)
			free := int(cfg.InventoryExternalPortQuantity) - activePorts
			if ports > free {
				return false, fmt.Sprintf("pending+new reservations need %d external ports, %d are free", ports, free)
			}
			nodesCopy := make([][3]uint64, len(effective))
			copy(nodesCopy, effective)
			if !c12Packable(nodesCopy, classes, counts) {
				return false, fmt.Sprintf("no placement of %v x %v exists on nodes %v (even with floor scaling by the commit levels)", classes, counts, effective)
			}
			return true, ""
		}

		nextOrder := 0
		// every group object ever handed to reserve, so that a later call can hand over the very
		// same object again (a retry after a refusal / a re-reservation after a release)
		type c12Call struct {
			gA, gB *dtypes.GroupSpec
			units  []c12Unit
		}
		var calls []c12Call
		doReserve := func(units []c12Unit, again *c12Call) {
			order := c12Order(nextOrder)
			nextOrder++
			name := fmt.Sprintf("g%d", order.DSeq)
			hasPending := false
			for _, r := range model {
				if !r.active {
					hasPending = true
				}
			}
			if hasPending {
				nontrivial = true
			}
			gA, gB := c12Group(name, units), c12Group(name, units)
			tag := "reserve"
			if again != nil {
				gA, gB, name, tag = again.gA, again.gB, again.gA.Name, "reserveSameGroupObject"
			} else if len(calls) < 8 {
				calls = append(calls, c12Call{gA, gB, units})
			}
			_, errA := A.is.reserve(order, gA)
			_, errB := B.is.reserve(order, gB)
			logop("%s(order%s,%v)->%v", tag, c12O(order), units, errA == nil)
			if (errA == nil) != (errB == nil) {
				fail("c12-status-affects-decisions", "reserve(order%s) was %v on the service whose status had been queried and %v on an identical service that was never queried", c12O(order), errA, errB)
			}
			if errA == nil {
				if ok, why := grantOK(units); !ok {
					fail("c12-overcommit", "reservation for order%s %v was GRANTED although %s", c12O(order), units, why)
				}
				model = append(model, &c12Res{order: order, group: name, units: units})
			}
		}
		t.Repeat(map[string]func(*rapid.T){
			"reserve": func(t *rapid.T) {
				if len(model) >= 5 {
					t.Skip("enough")
				}
				nu := rapid.IntRange(1, 3).Draw(t, "units")
				var units []c12Unit
				for i := 0; i < nu; i++ {
					units = append(units, c12Unit{
						cpu: uint64(rapid.IntRange(1, 4).Draw(t, "cpu")), mem: uint64(rapid.IntRange(1, 4).Draw(t, "mem")), sto: uint64(rapid.IntRange(1, 4).Draw(t, "sto")),
						count: uint32(rapid.IntRange(1, 3).Draw(t, "count")), endpoints: rapid.IntRange(0, 2).Draw(t, "endpoints"),
					})
				}
				doReserve(units, nil)
				lastWasStatusWithMulti = false
			},
			"reserveSameGroupObject": func(t *rapid.T) {
				if len(model) >= 5 || len(calls) == 0 {
					t.Skip("nothing to re-use")
				}
				c := calls[rapid.IntRange(0, len(calls)-1).Draw(t, "which")]
				doReserve(c.units, &c)
				lastWasStatusWithMulti = false
			},
			"unreserve": func(t *rapid.T) {
				known := len(model) > 0 && rapid.IntRange(0, 4).Draw(t, "known") > 0
				var order mtypes.OrderID
				idx := -1
				if known {
					idx = rapid.IntRange(0, len(model)-1).Draw(t, "which")
					order = model[idx].order
				} else {
					order = c12Order(1000 + rapid.IntRange(0, 3).Draw(t, "unknown"))
				}
				errA := A.is.unreserve(order)
				errB := B.is.unreserve(order)
				logop("unreserve(order%s)->%v", c12O(order), errA == nil)
				if (errA == nil) != known || (errB == nil) != known {
					fail("c12-unreserve", "unreserve(order%s): err=%v (twin %v), reservation outstanding=%v", c12O(order), errA, errB, known)
				}
				if known {
					model = append(model[:idx], model[idx+1:]...)
				}
				checkStatus("after unreserve")
				lastWasStatusWithMulti = false
			},
			"status": func(t *rapid.T) {
				multi := false
				for _, r := range model {
					if len(r.units) >= 2 {
						multi = true
					}
				}
				checkStatus("status")
				logop("status")
				if multi && lastWasStatusWithMulti {
					nontrivial = true
				}
				lastWasStatusWithMulti = multi
			},
			"statusTwice": func(t *rapid.T) {
				multi := false
				for _, r := range model {
					if len(r.units) >= 2 {
						multi = true
					}
				}
				checkStatus("status")
				checkStatus("status (again)")
				logop("status;status")
				if multi {
					nontrivial = true
				}
				lastWasStatusWithMulti = multi
			},
			"deployEvent": func(t *rapid.T) {
				if len(model) == 0 {
					t.Skip("none")
				}
				r := model[rapid.IntRange(0, len(model)-1).Draw(t, "which")]
				deployed := rapid.IntRange(0, 3).Draw(t, "deployed") > 0
				match := rapid.IntRange(0, 5).Draw(t, "match") > 0
				ev := event.ClusterDeployment{LeaseID: mtypes.MakeLeaseID(mtypes.MakeBidID(r.order, nil)), Group: &manifest.Group{Name: r.group}, Status: event.ClusterDeploymentPending}
				ev.LeaseID.Provider = "prov"
				if deployed {
					ev.Status = event.ClusterDeploymentDeployed
				}
				if !match {
					ev.Group = &manifest.Group{Name: "other"}
				}
				evOrder := r.order
				// only siblings that were already issued: an order issued later could otherwise be
				// reserved while this event is still queued in the service, which would make the
				// outcome depend on the Go scheduler
				sibling := (int(r.order.DSeq)-1)*2 + int(r.order.OSeq-1) ^ 1
				if sibling < nextOrder && rapid.IntRange(0, 3).Draw(t, "staleOseq") == 0 {
					// a late event of the sibling order (same deployment group, other order sequence)
					evOrder.OSeq = 3 - evOrder.OSeq
					ev.LeaseID.OSeq = evOrder.OSeq
				}
				// only the first reservation with this order+group is affected
				var target *c12Res
				for _, x := range model {
					if x.order.Equals(evOrder) && x.group == ev.Group.Name {
						target = x
						break
					}
				}
				ca, cb := A.client.callCount(), B.client.callCount()
				if err := A.bus.Publish(ev); err != nil {
					t.Fatalf("publish: %v", err)
				}
				if err := B.bus.Publish(ev); err != nil {
					t.Fatalf("publish: %v", err)
				}
				logop("event(order%d/%d,group=%s,%s)", evOrder.DSeq, evOrder.OSeq, ev.Group.Name, ev.Status)
				if target != nil {
					// the event stops reservations and triggers an inventory refresh: wait for it
					if !A.client.waitCalls(ca+1) || !B.client.waitCalls(cb+1) {
						t.Fatalf("VERIF-INCONCLUSIVE: inventory refresh after a matching deployment event did not happen within %v", c12Wait)
					}
					target.active = deployed
					effective = pendingSnapshot
					// barrier: reservations are only served again once the service loop has taken in
					// the refreshed inventory, so a (hopeless) request returning proves that no
					// inventory check is in flight any more when the next event is published
					huge := []c12Unit{{cpu: 1 << 40, mem: 1 << 40, sto: 1 << 40, count: 1}}
					for _, svc := range []*c12Svc{A, B} {
						if _, err := svc.is.reserve(c12Order(5000), c12Group("barrier", huge)); err == nil {
							fail("c12-overcommit", "a reservation of 2^40 cpu units was granted")
						}
					}
				}
				lastWasStatusWithMulti = false
			},
			"changeNodes": func(t *rapid.T) {
				n, c := genNodes()
				A.client.setNodes(n)
				B.client.setNodes(n)
				pendingSnapshot = c
				logop("nodes:=%v (effective after the next refresh)", c)
			},
		})
		// final accounting
		checkStatus("final")
		checkStatus("final (again)")
		_ = sort.Strings
	})
}
