package validation_test

// C10 — manifest integrity: cross-validation of a manifest against on-chain groups vs an
// independent multiset oracle (both directions), and manifest hash metamorphic relations.

import (
	"bytes"
	"crypto/sha256"
	"encoding/json"
	"fmt"
	"reflect"
	"sort"
	"strings"
	"testing"

	sdk "github.com/cosmos/cosmos-sdk/types"
	"pgregory.net/rapid"

	"github.com/ovrclk/akash/manifest"
	"github.com/ovrclk/akash/sdl"
	akashtypes "github.com/ovrclk/akash/types"
	"github.com/ovrclk/akash/validation"
	dtypes "github.com/ovrclk/akash/x/deployment/types"
)

const c10Rule = "pair (on-chain groups, manifest) where the manifest is derived from the groups by splitting/merging AND permuting services (must be accepted) or additionally carries exactly one small alteration (must be rejected); hash cases: every single-field edit of a generated manifest and key-shuffled JSON round trips"

type c10Class struct {
	cpu, mem, sto uint64
	arch          string
}

var c10Palette = []c10Class{
	{100, 16 << 20, 64 << 20, ""},
	{100, 16 << 20, 128 << 20, ""},
	{100, 32 << 20, 64 << 20, ""},
	{200, 16 << 20, 64 << 20, ""},
	{100, 16 << 20, 64 << 20, "arm64"},
}

func (c c10Class) units() akashtypes.ResourceUnits {
	u := akashtypes.ResourceUnits{
		CPU:     &akashtypes.CPU{Units: akashtypes.NewResourceValue(c.cpu)},
		Memory:  &akashtypes.Memory{Quantity: akashtypes.NewResourceValue(c.mem)},
		Storage: &akashtypes.Storage{Quantity: akashtypes.NewResourceValue(c.sto)},
	}
	if c.arch != "" {
		u.CPU.Attributes = []akashtypes.Attribute{{Key: "arch", Value: c.arch}}
	}
	return u
}

// c10Key renders a resource unit for the multiset oracle (cpu, memory, storage incl. attributes).
func c10Key(u akashtypes.ResourceUnits) string {
	var sb strings.Builder
	attrs := func(a []akashtypes.Attribute) {
		for _, x := range a {
			fmt.Fprintf(&sb, "{%s=%s}", x.Key, x.Value)
		}
	}
	if u.CPU == nil {
		sb.WriteString("cpu:nil")
	} else {
		fmt.Fprintf(&sb, "cpu:%s", u.CPU.Units.Val)
		attrs(u.CPU.Attributes)
	}
	if u.Memory == nil {
		sb.WriteString("|mem:nil")
	} else {
		fmt.Fprintf(&sb, "|mem:%s", u.Memory.Quantity.Val)
		attrs(u.Memory.Attributes)
	}
	if u.Storage == nil {
		sb.WriteString("|sto:nil")
	} else {
		fmt.Fprintf(&sb, "|sto:%s", u.Storage.Quantity.Val)
		attrs(u.Storage.Attributes)
	}
	return sb.String()
}

// c10Oracle: accept <=> same group names one-to-one, per group equal multisets of
// (resource unit x count) and equal counts of shared-HTTP and random-port endpoints.
func c10Oracle(m manifest.Manifest, groups []dtypes.Group) (bool, string) {
	if len(m) != len(groups) {
		return false, "group count differs"
	}
	byName := map[string]dtypes.Group{}
	for _, g := range groups {
		byName[g.GroupSpec.Name] = g
	}
	for _, mg := range m {
		dg, ok := byName[mg.Name]
		if !ok {
			return false, "unknown group " + mg.Name
		}
		want, got := map[string]uint64{}, map[string]uint64{}
		http, other := 0, 0
		for _, r := range dg.GroupSpec.Resources {
			want[c10Key(r.Resources)] += uint64(r.Count)
			for _, e := range r.Resources.Endpoints {
				switch e.Kind {
				case akashtypes.Endpoint_SHARED_HTTP:
					http++
				case akashtypes.Endpoint_RANDOM_PORT:
					other++
				}
			}
		}
		mhttp, mother := 0, 0
		for _, s := range mg.Services {
			got[c10Key(s.Resources)] += uint64(s.Count)
			for _, e := range s.Expose {
				if !e.Global {
					continue
				}
				ext := e.ExternalPort
				if ext == 0 {
					ext = e.Port
				}
				if e.Proto == manifest.TCP && ext == 80 {
					mhttp++
				} else {
					mother++
				}
			}
		}
		if !reflect.DeepEqual(want, got) {
			return false, fmt.Sprintf("group %s: resource multisets differ: chain %v manifest %v", mg.Name, want, got)
		}
		if http != mhttp || other != mother {
			return false, fmt.Sprintf("group %s: endpoint counts differ: chain http=%d other=%d manifest http=%d other=%d", mg.Name, http, other, mhttp, mother)
		}
	}
	return true, ""
}

type c10Case struct {
	groups []dtypes.Group
	m      manifest.Manifest
	desc   []string
}

func c10GenGroups(t *rapid.T) []dtypes.Group {
	ng := rapid.IntRange(1, 3).Draw(t, "groups")
	var out []dtypes.Group
	for g := 0; g < ng; g++ {
		spec := dtypes.GroupSpec{Name: fmt.Sprintf("grp%d", g)}
		nu := rapid.IntRange(1, 4).Draw(t, "units")
		for u := 0; u < nu; u++ {
			cl := c10Palette[rapid.IntRange(0, len(c10Palette)-1).Draw(t, "class")]
			ru := cl.units()
			ne := rapid.IntRange(0, 2).Draw(t, "endpoints")
			for e := 0; e < ne; e++ {
				k := akashtypes.Endpoint_SHARED_HTTP
				if rapid.Bool().Draw(t, "randomPort") {
					k = akashtypes.Endpoint_RANDOM_PORT
				}
				ru.Endpoints = append(ru.Endpoints, akashtypes.Endpoint{Kind: k})
			}
			spec.Resources = append(spec.Resources, dtypes.Resource{Resources: ru, Count: uint32(rapid.IntRange(1, 5).Draw(t, "count")), Price: sdk.NewInt64Coin("uakt", 1)})
		}
		out = append(out, dtypes.Group{GroupID: dtypes.GroupID{Owner: "owner", DSeq: 1, GSeq: uint32(g + 1)}, State: dtypes.GroupOpen, GroupSpec: spec})
	}
	return out
}

// c10Derive builds a manifest equal in per-group totals: services are split, merged and permuted.
func c10Derive(t *rapid.T, groups []dtypes.Group) (manifest.Manifest, bool, bool) {
	var m manifest.Manifest
	split, perm := false, false
	svcN := 0
	for _, g := range groups {
		mg := manifest.Group{Name: g.GroupSpec.Name}
		totals := map[string]uint64{}
		units := map[string]akashtypes.ResourceUnits{}
		var order []string
		http, other := 0, 0
		for _, r := range g.GroupSpec.Resources {
			k := c10Key(r.Resources)
			if _, ok := totals[k]; !ok {
				order = append(order, k)
				ru := r.Resources
				ru.Endpoints = nil
				units[k] = ru
			}
			totals[k] += uint64(r.Count)
			for _, e := range r.Resources.Endpoints {
				if e.Kind == akashtypes.Endpoint_SHARED_HTTP {
					http++
				} else {
					other++
				}
			}
		}
		if len(order) != len(g.GroupSpec.Resources) {
			split = true // merged
		}
		for _, k := range order {
			rest := totals[k]
			for rest > 0 {
				c := rest
				if rest > 1 && rapid.IntRange(0, 2).Draw(t, "split") > 0 {
					c = uint64(rapid.IntRange(1, int(rest)-1).Draw(t, "part"))
					split = true
				}
				svcN++
				mg.Services = append(mg.Services, manifest.Service{Name: fmt.Sprintf("svc%d", svcN), Image: "img", Resources: units[k], Count: uint32(c)})
				rest -= c
			}
		}
		// distribute the endpoints over the services
		for i := 0; i < http; i++ {
			s := &mg.Services[rapid.IntRange(0, len(mg.Services)-1).Draw(t, "httpSvc")]
			e := manifest.ServiceExpose{Port: 80, Proto: manifest.TCP, Global: true}
			if rapid.Bool().Draw(t, "viaAs") {
				e = manifest.ServiceExpose{Port: 8080, ExternalPort: 80, Proto: manifest.TCP, Global: true}
			}
			s.Expose = append(s.Expose, e)
		}
		for i := 0; i < other; i++ {
			s := &mg.Services[rapid.IntRange(0, len(mg.Services)-1).Draw(t, "otherSvc")]
			e := manifest.ServiceExpose{Port: uint16(rapid.SampledFrom([]int{81, 443, 8080, 53}).Draw(t, "port")), Proto: manifest.TCP, Global: true}
			if rapid.IntRange(0, 3).Draw(t, "udp") == 0 {
				e = manifest.ServiceExpose{Port: 80, Proto: manifest.UDP, Global: true}
			}
			s.Expose = append(s.Expose, e)
		}
		// some local exposes that must not count
		if rapid.Bool().Draw(t, "localExpose") {
			s := &mg.Services[rapid.IntRange(0, len(mg.Services)-1).Draw(t, "localSvc")]
			s.Expose = append(s.Expose, manifest.ServiceExpose{Port: 80, Proto: manifest.TCP, Global: false, Service: "other"})
		}
		if len(mg.Services) > 1 {
			p := rapid.Permutation(mg.Services).Draw(t, "perm")
			for i := range p {
				if p[i].Name != mg.Services[i].Name {
					perm = true
				}
			}
			mg.Services = p
		}
		m = append(m, mg)
	}
	if len(m) > 1 && rapid.Bool().Draw(t, "permGroups") {
		m[0], m[len(m)-1] = m[len(m)-1], m[0]
		perm = true
	}
	return m, split, perm
}

// c10Alter applies exactly one small alteration that changes the per-group totals.
func c10Alter(t *rapid.T, m manifest.Manifest) (manifest.Manifest, string) {
	// deep copy
	bz, _ := json.Marshal(m)
	var c manifest.Manifest
	_ = json.Unmarshal(bz, &c)
	gi := rapid.IntRange(0, len(c)-1).Draw(t, "altGroup")
	si := rapid.IntRange(0, len(c[gi].Services)-1).Draw(t, "altSvc")
	s := &c[gi].Services[si]
	switch rapid.IntRange(0, 8).Draw(t, "alteration") {
	case 0:
		s.Count++
		return c, "count+1"
	case 1:
		if s.Count > 1 {
			s.Count--
			return c, "count-1"
		}
		s.Count += 2
		return c, "count+2"
	case 2:
		s.Resources.CPU = &akashtypes.CPU{Units: akashtypes.NewResourceValue(s.Resources.CPU.Units.Value() + 1), Attributes: s.Resources.CPU.Attributes}
		return c, "cpu+1m"
	case 3:
		s.Resources.Memory = &akashtypes.Memory{Quantity: akashtypes.NewResourceValue(s.Resources.Memory.Quantity.Value() + 1)}
		return c, "memory+1"
	case 4:
		s.Resources.Storage = &akashtypes.Storage{Quantity: akashtypes.NewResourceValue(s.Resources.Storage.Quantity.Value() - 1)}
		return c, "storage-1"
	case 5:
		attrs := append([]akashtypes.Attribute{}, s.Resources.CPU.Attributes...)
		if len(attrs) == 0 {
			attrs = append(attrs, akashtypes.Attribute{Key: "arch", Value: "amd64"})
		} else {
			attrs[0].Value += "x"
		}
		s.Resources.CPU = &akashtypes.CPU{Units: s.Resources.CPU.Units, Attributes: attrs}
		return c, "cpu-attribute"
	case 6:
		for i := range s.Expose {
			if s.Expose[i].Global {
				s.Expose[i].Global = false
				return c, "global->local"
			}
		}
		s.Expose = append(s.Expose, manifest.ServiceExpose{Port: 80, Proto: manifest.TCP, Global: true})
		return c, "extra-global-expose"
	case 7:
		for i := range s.Expose {
			e := &s.Expose[i]
			if e.Global && e.Proto == manifest.TCP && e.ExternalPort == 0 && e.Port == 80 {
				e.Port = 81
				return c, "port80->81"
			}
			if e.Global && e.Proto == manifest.TCP && e.ExternalPort == 0 && e.Port != 80 {
				e.Port = 80
				return c, "port->80"
			}
		}
		s.Count++
		return c, "count+1"
	default:
		switch rapid.IntRange(0, 2).Draw(t, "groupAlt") {
		case 0:
			c[gi].Name += "x"
			return c, "group-renamed"
		case 1:
			extra := c[gi]
			extra.Name = "extra"
			return append(c, extra), "extra-group"
		default:
			if len(c) > 1 {
				return c[1:], "group-dropped"
			}
			c[gi].Name += "x"
			return c, "group-renamed"
		}
	}
}

func c10Specs(groups []dtypes.Group) []*dtypes.GroupSpec {
	var out []*dtypes.GroupSpec
	for i := range groups {
		out = append(out, &groups[i].GroupSpec)
	}
	return out
}

func TestVerif_C10_CrossValidation(t *testing.T) {
	vsInit("C10", c10Rule)
	defer vsFlush()
	rapid.Check(t, func(t *rapid.T) {
		groups := c10GenGroups(t)
		m, split, perm := c10Derive(t, groups)
		kind := rapid.IntRange(0, 9).Draw(t, "kind")
		label := "derived-equal"
		alteration := ""
		switch {
		case kind < 4:
			m, alteration = c10Alter(t, m)
			label = "near-miss:" + alteration
		case kind == 9:
			other := c10GenGroups(t)
			m, _, _ = c10Derive(t, other)
			label = "unrelated"
		}
		render := fmt.Sprintf("xval|%s|groups=%s|manifest=%s", label, c10RenderGroups(groups), c10RenderManifest(m))
		vsCase(render, (split && perm) || alteration != "", label)
		want, why := c10Oracle(m, groups)
		err1 := validation.ValidateManifestWithDeployment(&m, groups)
		err2 := validation.ValidateManifestWithGroupSpecs(&m, c10Specs(groups))
		if (err1 == nil) != (err2 == nil) {
			t.Fatalf("C10 VIOLATION key=c10-two-entry-points-disagree: WithDeployment err=%v, WithGroupSpecs err=%v\n%s", err1, err2, render)
		}
		if want && err1 != nil {
			t.Fatalf("C10 VIOLATION key=c10-equal-totals-rejected: manifest with equal per-group totals (label %s) was REJECTED: %v\n%s", label, err1, render)
		}
		if !want && err1 == nil {
			t.Fatalf("C10 VIOLATION key=c10-unequal-accepted: manifest was ACCEPTED although %s (label %s)\n%s", why, label, render)
		}
	})
}

func c10RenderGroups(gs []dtypes.Group) string {
	var sb strings.Builder
	for _, g := range gs {
		fmt.Fprintf(&sb, "[%s:", g.GroupSpec.Name)
		for _, r := range g.GroupSpec.Resources {
			fmt.Fprintf(&sb, "(%s x%d ep=%d)", c10Key(r.Resources), r.Count, len(r.Resources.Endpoints))
		}
		sb.WriteString("]")
	}
	return sb.String()
}

func c10RenderManifest(m manifest.Manifest) string {
	var sb strings.Builder
	for _, g := range m {
		fmt.Fprintf(&sb, "[%s:", g.Name)
		for _, s := range g.Services {
			fmt.Fprintf(&sb, "(%s %s x%d", s.Name, c10Key(s.Resources), s.Count)
			for _, e := range s.Expose {
				fmt.Fprintf(&sb, " %d/%d/%s/g=%v", e.Port, e.ExternalPort, e.Proto, e.Global)
			}
			sb.WriteString(")")
		}
		sb.WriteString("]")
	}
	return sb.String()
}

// ---------------------------------------------------------------- hash relations

func c10GenManifest(t *rapid.T) manifest.Manifest {
	groups := c10GenGroups(t)
	m, _, _ := c10Derive(t, groups)
	words := []string{"a", "bb", "x=1", "FOO=bar", "--flag", "/bin/sh"}
	for gi := range m {
		for si := range m[gi].Services {
			s := &m[gi].Services[si]
			s.Image = rapid.SampledFrom([]string{"nginx", "redis:6", "img"}).Draw(t, "image")
			s.Command = rapid.SliceOfN(rapid.SampledFrom(words), 0, 2).Draw(t, "command")
			s.Args = rapid.SliceOfN(rapid.SampledFrom(words), 0, 2).Draw(t, "args")
			s.Env = rapid.SliceOfN(rapid.SampledFrom(words), 0, 2).Draw(t, "env")
			for ei := range s.Expose {
				if rapid.Bool().Draw(t, "hosts") {
					s.Expose[ei].Hosts = []string{fmt.Sprintf("h%d-%d-%d.example.com", gi, si, ei)}
				}
			}
		}
	}
	return m
}

// shuffleJSON re-encodes JSON with object keys in a generated order.
func shuffleJSON(t *rapid.T, v interface{}, out *bytes.Buffer) {
	switch x := v.(type) {
	case map[string]interface{}:
		keys := make([]string, 0, len(x))
		for k := range x {
			keys = append(keys, k)
		}
		sort.Strings(keys)
		if len(keys) > 1 {
			keys = rapid.Permutation(keys).Draw(t, "keyOrder")
		}
		out.WriteByte('{')
		for i, k := range keys {
			if i > 0 {
				out.WriteByte(',')
			}
			kb, _ := json.Marshal(k)
			out.Write(kb)
			out.WriteByte(':')
			shuffleJSON(t, x[k], out)
		}
		out.WriteByte('}')
	case []interface{}:
		out.WriteByte('[')
		for i, e := range x {
			if i > 0 {
				out.WriteByte(',')
			}
			shuffleJSON(t, e, out)
		}
		out.WriteByte(']')
	default:
		b, _ := json.Marshal(x)
		out.Write(b)
	}
}

// c10Mutations enumerates, by reflection, one edit per leaf field of the manifest.
func c10Mutations(v reflect.Value, path string, apply func(path string, mutate func(), undo func())) {
	switch v.Kind() {
	case reflect.Ptr:
		if !v.IsNil() {
			c10Mutations(v.Elem(), path, apply)
		}
	case reflect.Struct:
		if v.Type() == reflect.TypeOf(sdk.Int{}) {
			old := v.Interface().(sdk.Int)
			if v.CanSet() && !old.IsNil() {
				apply(path, func() { v.Set(reflect.ValueOf(old.AddRaw(1))) }, func() { v.Set(reflect.ValueOf(old)) })
			}
			return
		}
		for i := 0; i < v.NumField(); i++ {
			if v.Type().Field(i).PkgPath != "" {
				continue
			}
			c10Mutations(v.Field(i), path+"."+v.Type().Field(i).Name, apply)
		}
	case reflect.Slice:
		for i := 0; i < v.Len(); i++ {
			c10Mutations(v.Index(i), fmt.Sprintf("%s[%d]", path, i), apply)
		}
		if v.CanSet() && v.Type().Elem().Kind() == reflect.String {
			old := reflect.ValueOf(v.Interface())
			apply(path+"+append", func() { v.Set(reflect.Append(v, reflect.ValueOf("zz"))) }, func() { v.Set(old) })
		}
	case reflect.String:
		if v.CanSet() {
			old := v.String()
			apply(path, func() { v.SetString(old + "~") }, func() { v.SetString(old) })
		}
	case reflect.Bool:
		if v.CanSet() {
			old := v.Bool()
			apply(path, func() { v.SetBool(!old) }, func() { v.SetBool(old) })
		}
	case reflect.Uint16, reflect.Uint32, reflect.Uint64, reflect.Uint:
		if v.CanSet() {
			old := v.Uint()
			apply(path, func() { v.SetUint(old + 1) }, func() { v.SetUint(old) })
		}
	case reflect.Int32, reflect.Int64, reflect.Int:
		if v.CanSet() {
			old := v.Int()
			apply(path, func() { v.SetInt(old + 1) }, func() { v.SetInt(old) })
		}
	}
}

func TestVerif_C10_Hash(t *testing.T) {
	vsInit("C10", c10Rule)
	defer vsFlush()
	rapid.Check(t, func(t *rapid.T) {
		m := c10GenManifest(t)
		h0, err := sdl.ManifestVersion(m)
		if err != nil {
			t.Fatalf("ManifestVersion: %v", err)
		}
		if len(h0) != 32 {
			t.Fatalf("C10 VIOLATION key=c10-hash-length: version is %d bytes", len(h0))
		}
		// serialization-order independence: shuffled-key JSON decodes to a manifest with the same hash
		bz, _ := json.Marshal(m)
		var generic interface{}
		_ = json.Unmarshal(bz, &generic)
		var buf bytes.Buffer
		shuffleJSON(t, generic, &buf)
		var m2 manifest.Manifest
		if err := json.Unmarshal(buf.Bytes(), &m2); err != nil {
			t.Fatalf("harness: shuffled JSON does not decode: %v", err)
		}
		h1, err := sdl.ManifestVersion(m2)
		if err != nil || !bytes.Equal(h0, h1) {
			t.Fatalf("C10 VIOLATION key=c10-hash-order-dependent: hash changed after a JSON round trip with shuffled object keys (%x vs %x, err=%v)", h0, h1, err)
		}
		// the version is the SHA-256 of the key-sorted JSON form, so that any serializer that
		// sorts keys (clients in other languages) arrives at the same value
		var canon interface{}
		dec := json.NewDecoder(bytes.NewReader(buf.Bytes()))
		dec.UseNumber()
		_ = dec.Decode(&canon)
		cb, _ := json.Marshal(canon) // encoding/json writes map keys in sorted order
		if ref := sha256.Sum256(cb); !bytes.Equal(ref[:], h0) {
			t.Fatalf("C10 VIOLATION key=c10-hash-not-canonical: version %x is not the SHA-256 of the key-sorted JSON of the manifest (%x)", h0, ref)
		}
		// every single-field edit changes the hash
		edits := 0
		mv := reflect.ValueOf(&m).Elem()
		c10Mutations(mv, "m", func(path string, mutate func(), undo func()) {
			mutate()
			h, err := sdl.ManifestVersion(m)
			undo()
			edits++
			if err == nil && bytes.Equal(h, h0) {
				t.Fatalf("C10 VIOLATION key=c10-hash-ignores-field: changing %s does not change the manifest version", path)
			}
		})
		hb, _ := sdl.ManifestVersion(m)
		if !bytes.Equal(hb, h0) {
			t.Fatalf("harness: undo failed")
		}
		vsExtra("hash_single_field_edits", edits)
		vsCase("hash|"+c10RenderManifest(m), edits > 0, "hash")
	})
}
