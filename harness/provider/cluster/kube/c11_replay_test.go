package kube

// Replay tier for C11: D13 (an update that withdraws a globally exposed port leaves the stale
// per-service NetworkPolicy) and D14 (an API error while applying network policies is dropped
// and Deploy reports success). Scripted, no generator.

import (
	"context"
	"fmt"
	"testing"

	"github.com/tendermint/tendermint/libs/log"
	corev1 "k8s.io/api/core/v1"
	netv1 "k8s.io/api/networking/v1"
	metav1 "k8s.io/apimachinery/pkg/apis/meta/v1"
	"k8s.io/apimachinery/pkg/runtime"
	kfake "k8s.io/client-go/kubernetes/fake"
	ktesting "k8s.io/client-go/testing"

	"github.com/ovrclk/akash/manifest"
	afake "github.com/ovrclk/akash/pkg/client/clientset/versioned/fake"
	akashtypes "github.com/ovrclk/akash/types"
	mtypes "github.com/ovrclk/akash/x/market/types"
)

func c11ReplayGroup(global bool) manifest.Group {
	ru := akashtypes.ResourceUnits{
		CPU:     &akashtypes.CPU{Units: akashtypes.NewResourceValue(100)},
		Memory:  &akashtypes.Memory{Quantity: akashtypes.NewResourceValue(16 << 20)},
		Storage: &akashtypes.Storage{Quantity: akashtypes.NewResourceValue(64 << 20)},
	}
	return manifest.Group{Name: "grp", Services: []manifest.Service{{
		Name: "db", Image: "img", Count: 1, Resources: ru,
		Expose: []manifest.ServiceExpose{{Port: 5432, ExternalPort: 5432, Proto: manifest.TCP, Global: global}},
	}}}
}

func TestVerif_C11_Replay(t *testing.T) {
	lid := mtypes.LeaseID{Owner: c11Addrs[0], DSeq: 7, GSeq: 1, OSeq: 1, Provider: c11Addrs[1]}
	st := Settings{DeploymentServiceType: corev1.ServiceTypeClusterIP, ClusterPublicHostname: "provider.example.com", NetworkPoliciesEnabled: true,
		CPUCommitLevel: 1, MemoryCommitLevel: 1, StorageCommitLevel: 1}
	stored := func(kc *kfake.Clientset) []*netv1.NetworkPolicy {
		nps, _ := kc.NetworkingV1().NetworkPolicies(metav1.NamespaceAll).List(context.Background(), metav1.ListOptions{})
		var out []*netv1.NetworkPolicy
		for i := range nps.Items {
			out = append(out, &nps.Items[i])
		}
		return out
	}
	admits5432 := func(kc *kfake.Clientset) bool {
		other := c11Peer{ns: "zzother", nsLabels: map[string]string{akashNetworkNamespace: "zzother"}, labels: map[string]string{akashNetworkNamespace: "zzother"}, ip: "10.42.7.9"}
		pod := map[string]string{akashManagedLabelName: "true", akashNetworkNamespace: lidNS(lid), akashManifestServiceLabelName: "db"}
		return c11Allowed(stored(kc), lidNS(lid), pod, true, other, 5432, corev1.ProtocolTCP)
	}
	t.Run("D13-stale-policy-after-update", func(t *testing.T) {
		kc := kfake.NewSimpleClientset()
		cl := &client{kc: kc, ac: afake.NewSimpleClientset(), ns: "lease", settings: st, log: log.NewNopLogger()}
		g1, g2 := c11ReplayGroup(true), c11ReplayGroup(false)
		if err := cl.Deploy(context.Background(), lid, &g1); err != nil {
			t.Fatalf("first deploy: %v", err)
		}
		if !admits5432(kc) {
			t.Fatalf("VERIF-INCONCLUSIVE: the globally exposed port is not admitted after the first deploy (evaluator or builder changed)")
		}
		if err := cl.Deploy(context.Background(), lid, &g2); err != nil {
			t.Fatalf("update: %v", err)
		}
		if admits5432(kc) {
			t.Fatalf("C11 VIOLATION key=c11-netpol-ingress: after an update that withdrew the global expose of 5432/TCP, pods of other tenants are still admitted to it")
		}
	})
	t.Run("D14-policy-error-dropped", func(t *testing.T) {
		kc := kfake.NewSimpleClientset()
		cl := &client{kc: kc, ac: afake.NewSimpleClientset(), ns: "lease", settings: st, log: log.NewNopLogger()}
		g1, g2 := c11ReplayGroup(true), c11ReplayGroup(true)
		// the update moves the global expose from 5432 to 5433: the per-service policy has to change
		g2.Services[0].Expose[0].Port, g2.Services[0].Expose[0].ExternalPort = 5433, 5433
		if err := cl.Deploy(context.Background(), lid, &g1); err != nil {
			t.Fatalf("first deploy: %v", err)
		}
		fired := false
		kc.PrependReactor("update", "networkpolicies", func(a ktesting.Action) (bool, runtime.Object, error) {
			ua, ok := a.(ktesting.UpdateAction)
			if !ok || fired {
				return false, nil, nil
			}
			if np, ok := ua.GetObject().(*netv1.NetworkPolicy); !ok || np.Name != "akash-db-np" {
				return false, nil, nil
			}
			fired = true
			return true, nil, fmt.Errorf("verif: injected API error")
		})
		err := cl.Deploy(context.Background(), lid, &g2)
		if !fired {
			t.Fatalf("VERIF-INCONCLUSIVE: the per-service policy akash-db-np was not updated (names changed?)")
		}
		if err == nil && admits5432(kc) {
			t.Fatalf("C11 VIOLATION key=c11-netpol-ingress: the update of a NetworkPolicy failed during Deploy, Deploy reported success, and the withdrawn port 5432/TCP is still admitted from other tenants")
		}
	})
}
