package sdl_test

// C18 — SDL translation is deterministic, faithful and self-consistent.
// A structural generator builds an SDL v2 document tree, emits it as YAML with a
// generated order of every mapping's keys, and compares sdl.Read's outputs with the
// tree (faithfulness), across runs and key permutations (determinism), and through the
// provider's validation (self-consistency).

import (
	"bytes"
	"encoding/json"
	"fmt"
	"sort"
	"strings"
	"testing"

	"pgregory.net/rapid"

	"github.com/ovrclk/akash/manifest"
	"github.com/ovrclk/akash/sdl"
	"github.com/ovrclk/akash/validation"
	dtypes "github.com/ovrclk/akash/x/deployment/types"
)

const c18Rule = "generated SDL v2 document with >=2 services sharing a placement, at least one of command/args/env set on some service, and an emitted key order that differs from the canonical one"

type c18To struct {
	service string
	global  bool
}

type c18Expose struct {
	port, as uint16
	proto    string // "", "tcp", "udp", "TCP"
	accept   []string
	to       []c18To
}

type c18Service struct {
	name    string
	image   string
	command []string
	args    []string
	env     []string
	expose  []c18Expose
}

type c18Compute struct {
	name     string
	cpuText  string
	cpuMilli uint64
	cpuExact bool
	memText  string
	memBytes uint64
	memExact bool
	stoText  string
	stoBytes uint64
	stoExact bool
	stoAttrs map[string]string // storage attributes (free-form key/value)
	cpuArch  string            // cpu attribute "arch", "" = none
}

func c18AttrString(kv map[string]string) string {
	var ks []string
	for k := range kv {
		ks = append(ks, k)
	}
	sort.Strings(ks)
	out := ""
	for _, k := range ks {
		out += k + "=" + kv[k] + ";"
	}
	return out
}

type c18Placement struct {
	name    string
	attrs   map[string]string
	allOf   []string
	anyOf   []string
	pricing map[string]int64 // compute profile -> uakt
}

type c18Deploy struct {
	service, placement, profile string
	count                       uint32
}

type c18Doc struct {
	services   []c18Service
	computes   []c18Compute
	placements []c18Placement
	deploys    []c18Deploy
}

// ---- YAML emitter with explicit key order ---------------------------------------------------

type yKV struct {
	k string
	v interface{} // string (already formatted scalar), []interface{}, []yKV
}

func yq(s string) string { b, _ := json.Marshal(s); return string(b) }

type c18Emitter struct {
	t        *rapid.T
	permute  bool
	permuted bool
}

func (e *c18Emitter) order(kvs []yKV) []yKV {
	if !e.permute || len(kvs) < 2 {
		return kvs
	}
	p := rapid.Permutation(kvs).Draw(e.t, "keyOrder")
	for i := range p {
		if p[i].k != kvs[i].k {
			e.permuted = true
		}
	}
	return p
}

func (e *c18Emitter) emit(sb *strings.Builder, v interface{}, indent int, inList bool) {
	pad := strings.Repeat("  ", indent)
	switch x := v.(type) {
	case string:
		sb.WriteString(x + "\n")
	case []yKV:
		if len(x) == 0 {
			sb.WriteString("{}\n")
			return
		}
		if !inList {
			sb.WriteString("\n")
		}
		for i, kv := range e.order(x) {
			if !(inList && i == 0) {
				sb.WriteString(pad)
			}
			sb.WriteString(kv.k + ": ")
			e.emit(sb, kv.v, indent+1, false)
		}
	case []interface{}:
		if len(x) == 0 {
			sb.WriteString("[]\n")
			return
		}
		sb.WriteString("\n")
		for _, it := range x {
			sb.WriteString(pad + "- ")
			e.emit(sb, it, indent+1, true)
		}
	}
}

func strList(ss []string) []interface{} {
	var out []interface{}
	for _, s := range ss {
		out = append(out, yq(s))
	}
	return out
}

func (d *c18Doc) yaml(t *rapid.T, permute bool) (string, bool) {
	e := &c18Emitter{t: t, permute: permute}
	var svcs []yKV
	for _, s := range d.services {
		kv := []yKV{{"image", yq(s.image)}}
		if len(s.command) > 0 {
			kv = append(kv, yKV{"command", strList(s.command)})
		}
		if len(s.args) > 0 {
			kv = append(kv, yKV{"args", strList(s.args)})
		}
		if len(s.env) > 0 {
			kv = append(kv, yKV{"env", strList(s.env)})
		}
		if len(s.expose) > 0 {
			var exps []interface{}
			for _, x := range s.expose {
				ekv := []yKV{{"port", fmt.Sprint(x.port)}}
				if x.as != 0 {
					ekv = append(ekv, yKV{"as", fmt.Sprint(x.as)})
				}
				if x.proto != "" {
					ekv = append(ekv, yKV{"proto", x.proto})
				}
				if len(x.accept) > 0 {
					ekv = append(ekv, yKV{"accept", strList(x.accept)})
				}
				if len(x.to) > 0 {
					var tos []interface{}
					for _, to := range x.to {
						var tkv []yKV
						if to.service != "" {
							tkv = append(tkv, yKV{"service", to.service})
						}
						if to.global {
							tkv = append(tkv, yKV{"global", "true"})
						}
						tos = append(tos, tkv)
					}
					ekv = append(ekv, yKV{"to", tos})
				}
				exps = append(exps, ekv)
			}
			kv = append(kv, yKV{"expose", exps})
		}
		svcs = append(svcs, yKV{s.name, kv})
	}
	var comps []yKV
	for _, c := range d.computes {
		comps = append(comps, yKV{c.name, []yKV{{"resources", []yKV{
			{"cpu", func() []yKV {
				kv := []yKV{{"units", yq(c.cpuText)}}
				if c.cpuArch != "" {
					kv = append(kv, yKV{"attributes", []yKV{{"arch", yq(c.cpuArch)}}})
				}
				return kv
			}()},
			{"memory", []yKV{{"size", yq(c.memText)}}},
			{"storage", func() []yKV {
				kv := []yKV{{"size", yq(c.stoText)}}
				if len(c.stoAttrs) > 0 {
					var ks []string
					for k := range c.stoAttrs {
						ks = append(ks, k)
					}
					sort.Strings(ks)
					var akv []yKV
					for _, k := range ks {
						akv = append(akv, yKV{k, yq(c.stoAttrs[k])})
					}
					kv = append(kv, yKV{"attributes", akv})
				}
				return kv
			}()},
		}}}})
	}
	var places []yKV
	for _, p := range d.placements {
		var attrs []yKV
		var ak []string
		for k := range p.attrs {
			ak = append(ak, k)
		}
		sort.Strings(ak)
		for _, k := range ak {
			attrs = append(attrs, yKV{k, yq(p.attrs[k])})
		}
		var pricing []yKV
		var pk []string
		for k := range p.pricing {
			pk = append(pk, k)
		}
		sort.Strings(pk)
		for _, k := range pk {
			pricing = append(pricing, yKV{k, []yKV{{"denom", "uakt"}, {"amount", fmt.Sprint(p.pricing[k])}}})
		}
		pkv := []yKV{{"pricing", pricing}}
		if len(attrs) > 0 {
			pkv = append(pkv, yKV{"attributes", attrs})
		}
		if len(p.allOf)+len(p.anyOf) > 0 {
			var sb []yKV
			if len(p.allOf) > 0 {
				sb = append(sb, yKV{"allOf", strList(p.allOf)})
			}
			if len(p.anyOf) > 0 {
				sb = append(sb, yKV{"anyOf", strList(p.anyOf)})
			}
			pkv = append(pkv, yKV{"signedBy", sb})
		}
		places = append(places, yKV{p.name, pkv})
	}
	bySvc := map[string][]yKV{}
	var svcOrder []string
	for _, dp := range d.deploys {
		if _, ok := bySvc[dp.service]; !ok {
			svcOrder = append(svcOrder, dp.service)
		}
		bySvc[dp.service] = append(bySvc[dp.service], yKV{dp.placement, []yKV{{"profile", dp.profile}, {"count", fmt.Sprint(dp.count)}}})
	}
	var deps []yKV
	for _, s := range svcOrder {
		deps = append(deps, yKV{s, bySvc[s]})
	}
	top := []yKV{
		{"version", yq("2.0")},
		{"services", svcs},
		{"profiles", []yKV{{"compute", comps}, {"placement", places}}},
		{"deployment", deps},
	}
	var sb strings.Builder
	sb.WriteString("---\n")
	for _, kv := range e.order(top) {
		sb.WriteString(kv.k + ": ")
		e.emit(&sb, kv.v, 1, false)
	}
	return sb.String(), e.permuted
}

// ---- generator --------------------------------------------------------------------------------

var c18Words = []string{"sh", "-c", "run", "--port=80", "a b", "x:y", "#h", "- z", "true", "1.5", "é"}
var c18EnvNames = []string{"FOO", "BAR_1", "path", "X"}

func c18Gen(t *rapid.T) *c18Doc {
	d := &c18Doc{}
	// compute profiles
	nc := rapid.IntRange(1, 3).Draw(t, "computes")
	for i := 0; i < nc; i++ {
		c := c18Compute{name: fmt.Sprintf("cp%d", i)}
		if na := rapid.IntRange(0, 3).Draw(t, "storageAttrs"); na > 0 {
			c.stoAttrs = map[string]string{}
			for _, k := range rapid.Permutation([]string{"class", "persistent", "tier"}).Draw(t, "storageAttrKeys")[:na] {
				c.stoAttrs[k] = rapid.SampledFrom([]string{"default", "beta2", "true"}).Draw(t, "storageAttrVal")
			}
		}
		if rapid.IntRange(0, 3).Draw(t, "cpuArch") == 0 {
			c.cpuArch = rapid.SampledFrom([]string{"amd64", "arm64"}).Draw(t, "arch")
		}
		switch rapid.IntRange(0, 2).Draw(t, "cpuForm") {
		case 0:
			m := uint64(rapid.IntRange(10, 2000).Draw(t, "cpuMilli"))
			c.cpuText, c.cpuMilli, c.cpuExact = fmt.Sprintf("%dm", m), m, true
		case 1:
			n := uint64(rapid.IntRange(1, 2).Draw(t, "cpuWhole"))
			c.cpuText, c.cpuMilli, c.cpuExact = fmt.Sprint(n), n*1000, true
		default:
			h := uint64(rapid.IntRange(1, 199).Draw(t, "cpuHundredths"))
			c.cpuText, c.cpuMilli, c.cpuExact = fmt.Sprintf("%d.%02d", h/100, h%100), h*10, false
		}
		byteForm := func(name string, lo, hi int) (string, uint64, bool) {
			switch rapid.IntRange(0, 2).Draw(t, name+"Form") {
			case 0:
				n := uint64(rapid.IntRange(lo, hi).Draw(t, name+"Mi"))
				return fmt.Sprintf("%dMi", n), n << 20, true
			case 1:
				n := uint64(rapid.IntRange(lo, hi).Draw(t, name+"M"))
				return fmt.Sprintf("%dM", n), n * 1000 * 1000, true
			default:
				tenths := uint64(rapid.IntRange(lo*10, hi*10).Draw(t, name+"TenthsMi"))
				return fmt.Sprintf("%d.%dMi", tenths/10, tenths%10), tenths * (1 << 20) / 10, false
			}
		}
		c.memText, c.memBytes, c.memExact = byteForm("mem", 2, 512)
		c.stoText, c.stoBytes, c.stoExact = byteForm("sto", 6, 2048)
		d.computes = append(d.computes, c)
	}
	// placements
	np := rapid.IntRange(1, 3).Draw(t, "placements")
	for i := 0; i < np; i++ {
		p := c18Placement{name: fmt.Sprintf("pl%d", i), attrs: map[string]string{}, pricing: map[string]int64{}}
		for _, k := range rapid.SliceOfNDistinct(rapid.SampledFrom([]string{"region", "tier", "zone", "host"}), 0, 3, func(s string) string { return s }).Draw(t, "attrKeys") {
			p.attrs[k] = rapid.SampledFrom([]string{"us-west", "a", "b1"}).Draw(t, "attrVal")
		}
		p.allOf = rapid.SliceOfN(rapid.SampledFrom([]string{"akash1aud1", "akash1aud2"}), 0, 2).Draw(t, "allOf")
		p.anyOf = rapid.SliceOfN(rapid.SampledFrom([]string{"akash1aud1", "akash1aud3"}), 0, 2).Draw(t, "anyOf")
		for _, c := range d.computes {
			p.pricing[c.name] = int64(rapid.IntRange(1, 100000).Draw(t, "price"))
		}
		d.placements = append(d.placements, p)
	}
	// services
	ns := rapid.IntRange(1, 4).Draw(t, "services")
	hostN := 0
	anyGlobal := false
	svcPlacements := make([][]int, ns)
	for i := 0; i < ns; i++ {
		svcPlacements[i] = rapid.SliceOfNDistinct(rapid.IntRange(0, np-1), 1, minInt(2, np), func(i int) int { return i }).Draw(t, "svcPlacements")
	}
	for i := 0; i < ns; i++ {
		s := c18Service{name: fmt.Sprintf("svc%d", i), image: rapid.SampledFrom([]string{"nginx", "redis:6.2", "ghcr.io/x/y@sha256:ab"}).Draw(t, "image")}
		s.command = rapid.SliceOfN(rapid.SampledFrom(c18Words), 0, 3).Draw(t, "command")
		s.args = rapid.SliceOfN(rapid.SampledFrom(c18Words), 0, 3).Draw(t, "args")
		for _, n := range rapid.SliceOfNDistinct(rapid.SampledFrom(c18EnvNames), 0, 3, func(s string) string { return s }).Draw(t, "envNames") {
			switch rapid.IntRange(0, 2).Draw(t, "envForm") {
			case 0:
				s.env = append(s.env, n+"="+rapid.SampledFrom(c18Words).Draw(t, "envVal"))
			case 1:
				s.env = append(s.env, n+"=")
			default:
				s.env = append(s.env, n)
			}
		}
		ne := rapid.IntRange(0, 3).Draw(t, "exposes")
		for j := 0; j < ne; j++ {
			x := c18Expose{port: uint16(rapid.SampledFrom([]int{80, 81, 443, 8080, 53}).Draw(t, "port"))}
			if rapid.IntRange(0, 2).Draw(t, "hasAs") == 0 {
				x.as = uint16(rapid.SampledFrom([]int{80, 8081, 9000}).Draw(t, "as"))
			}
			x.proto = rapid.SampledFrom([]string{"", "tcp", "udp", "TCP"}).Draw(t, "proto")
			nto := rapid.IntRange(0, 2).Draw(t, "tos")
			for k := 0; k < nto; k++ {
				to := c18To{}
				if rapid.Bool().Draw(t, "toGlobal") {
					to.global = true
					anyGlobal = true
				}
				if !to.global || rapid.Bool().Draw(t, "toService") {
					to.service = fmt.Sprintf("svc%d", rapid.IntRange(0, ns-1).Draw(t, "toSvc"))
				}
				x.to = append(x.to, to)
			}
			// hostnames must be unique across the whole manifest: only where the expose yields one entry
			if nto <= 1 && len(svcPlacements[i]) == 1 && rapid.IntRange(0, 2).Draw(t, "hasAccept") == 0 {
				hostN++
				x.accept = []string{fmt.Sprintf("h%d.example.com", hostN)}
			}
			s.expose = append(s.expose, x)
			// the same container port published a second time under another external port
			if len(x.accept) == 0 && rapid.IntRange(0, 5).Draw(t, "twinExpose") == 0 {
				tw := x
				tw.as = uint16(rapid.SampledFrom([]int{8082, 9001, 80}).Draw(t, "twinAs"))
				tw.to = append([]c18To(nil), x.to...)
				s.expose = append(s.expose, tw)
				vsLabel("port-exposed-twice")
			}
		}
		d.services = append(d.services, s)
	}
	if !anyGlobal {
		// a manifest needs at least one global service
		d.services[0].expose = append(d.services[0].expose, c18Expose{port: 80, to: []c18To{{global: true}}})
	}
	// deployment: every service goes to 1..2 placements
	for si, s := range d.services {
		for _, pi := range svcPlacements[si] {
			c := d.computes[rapid.IntRange(0, nc-1).Draw(t, "profile")]
			d.deploys = append(d.deploys, c18Deploy{service: s.name, placement: d.placements[pi].name, profile: c.name, count: uint32(rapid.IntRange(1, 3).Draw(t, "count"))})
		}
	}
	return d
}

func minInt(a, b int) int {
	if a < b {
		return a
	}
	return b
}

func c18Outputs(doc []byte) (groups []*dtypes.GroupSpec, m manifest.Manifest, ver []byte, fp string, err error) {
	defer func() {
		if r := recover(); r != nil {
			err = fmt.Errorf("panic: %v", r)
		}
	}()
	s, err := sdl.Read(doc)
	if err != nil {
		return nil, nil, nil, "", err
	}
	groups, err = s.DeploymentGroups()
	if err != nil {
		return nil, nil, nil, "", fmt.Errorf("DeploymentGroups after successful Read: %w", err)
	}
	m, err = s.Manifest()
	if err != nil {
		return nil, nil, nil, "", fmt.Errorf("Manifest after successful Read: %w", err)
	}
	ver, err = sdl.Version(s)
	if err != nil {
		return nil, nil, nil, "", fmt.Errorf("Version after successful Read: %w", err)
	}
	gb, _ := json.Marshal(groups)
	mb, _ := json.Marshal(m)
	return groups, m, ver, fmt.Sprintf("%s|%s|%x", gb, mb, ver), nil
}

func sameStrings(a, b []string) bool {
	if len(a) != len(b) {
		return false
	}
	for i := range a {
		if a[i] != b[i] {
			return false
		}
	}
	return true
}

func near(got, want uint64, exact bool) bool {
	if exact {
		return got == want
	}
	d := int64(got) - int64(want)
	return d >= -1 && d <= 1
}

func TestVerif_C18(t *testing.T) {
	vsInit("C18", c18Rule)
	defer vsFlush()
	rejected := 0
	defer func() { vsExtra("c18_documents_rejected_by_Read", rejected) }()
	rapid.Check(t, func(t *rapid.T) {
		d := c18Gen(t)
		canonical, _ := d.yaml(t, false)
		permuted, didPermute := d.yaml(t, true)
		groups, m, ver, fp, err := c18Outputs([]byte(canonical))
		if err != nil {
			if strings.Contains(err.Error(), "after successful Read") {
				t.Fatalf("C18 VIOLATION key=c18-accessor-fails: %v\n%s", err, canonical)
			}
			rejected++
			vsCase("rejected|"+canonical, false, "rejected-by-Read")
			// the permuted emission must be rejected as well
			if _, _, _, _, err2 := c18Outputs([]byte(permuted)); err2 == nil {
				t.Fatalf("C18 VIOLATION key=c18-order-dependent-acceptance: canonical emission rejected (%v) but a key permutation of it is accepted\n%s\n---\n%s", err, canonical, permuted)
			}
			return
		}
		// non-triviality
		perPlacement := map[string]int{}
		shared := false
		for _, dp := range d.deploys {
			perPlacement[dp.placement]++
			if perPlacement[dp.placement] >= 2 {
				shared = true
			}
		}
		hasCmd, hasArgs, hasEnv := false, false, false
		for _, s := range d.services {
			hasCmd = hasCmd || len(s.command) > 0
			hasArgs = hasArgs || len(s.args) > 0
			hasEnv = hasEnv || len(s.env) > 0
		}
		vsCase("doc|"+permuted, shared && (hasCmd || hasArgs || hasEnv) && didPermute)

		// determinism: same bytes again, and the key-permuted emission
		for i := 0; i < 2; i++ {
			if _, _, _, fp2, err := c18Outputs([]byte(canonical)); err != nil || fp2 != fp {
				t.Fatalf("C18 VIOLATION key=c18-nondeterministic: reading the same document again gave different outputs (err=%v)\n%s", err, canonical)
			}
		}
		if _, _, _, fp3, err := c18Outputs([]byte(permuted)); err != nil || fp3 != fp {
			t.Fatalf("C18 VIOLATION key=c18-key-order-dependent: reordering YAML mapping keys changed the outputs (err=%v)\n--- canonical:\n%s\n--- permuted:\n%s\n--- out1: %s\n--- out2: %s", err, canonical, permuted, fp, fp3)
		}
		// the same holds for one parsed document asked several times (a client derives the
		// groups, the manifest and the version from one object, in any order and more than once)
		if obj, err := sdl.Read([]byte(canonical)); err == nil {
			order := rapid.SliceOfN(rapid.IntRange(0, 2), 2, 5).Draw(t, "derivations")
			for _, k := range order {
				switch k {
				case 0:
					_, _ = obj.DeploymentGroups()
				case 1:
					_, _ = obj.Manifest()
				default:
					_, _ = sdl.Version(obj)
				}
			}
			g2, e1 := obj.DeploymentGroups()
			m2, e2 := obj.Manifest()
			v2, e3 := sdl.Version(obj)
			gb, _ := json.Marshal(g2)
			mb, _ := json.Marshal(m2)
			if fp5 := fmt.Sprintf("%s|%s|%x", gb, mb, v2); e1 != nil || e2 != nil || e3 != nil || fp5 != fp {
				t.Fatalf("C18 VIOLATION key=c18-history-dependent: one parsed document, asked again after derivations %v, gave different outputs (errs=%v,%v,%v)\n%s\n--- first: %s\n--- later: %s", order, e1, e2, e3, canonical, fp, fp5)
			}
		}
		if len(ver) != 32 {
			t.Fatalf("C18 VIOLATION key=c18-version-length: %d", len(ver))
		}
		// "the same on every run": also after the process has meanwhile read OTHER documents,
		// in particular invalid relatives of this one that fail half-way through validation
		// (a service with hostnames deployed to two placements; a deployment naming an unknown profile)
		{
			bad1 := *d
			bad1.deploys = append([]c18Deploy(nil), d.deploys...)
			bad1.placements = append([]c18Placement(nil), d.placements...)
			for _, sv := range d.services {
				hosts := false
				for _, x := range sv.expose {
					hosts = hosts || len(x.accept) > 0
				}
				if !hosts {
					continue
				}
				for _, dp := range d.deploys {
					if dp.service == sv.name {
						clone := d.placements[0]
						for _, pl := range d.placements {
							if pl.name == dp.placement {
								clone = pl
							}
						}
						clone.name = "zzsecond"
						bad1.placements = append(bad1.placements, clone)
						bad1.deploys = append(bad1.deploys, c18Deploy{service: sv.name, placement: "zzsecond", profile: dp.profile, count: 1})
						vsLabel("interleaved-invalid-relative:hostname-in-two-groups")
						break
					}
				}
				break
			}
			bad2 := *d
			bad2.deploys = append([]c18Deploy(nil), d.deploys...)
			bad2.deploys[len(bad2.deploys)-1].profile = "no-such-profile"
			for _, bd := range []*c18Doc{&bad1, &bad2} {
				y, _ := bd.yaml(t, false)
				_, _, _, _, _ = c18Outputs([]byte(y))
			}
			if _, _, _, fp4, err := c18Outputs([]byte(canonical)); err != nil || fp4 != fp {
				t.Fatalf("C18 VIOLATION key=c18-history-dependent: after the process read two invalid relatives of the document, reading the document itself gave different outputs (err=%v)\n%s", err, canonical)
			}
		}

		// self-consistency
		if err := validation.ValidateManifestWithGroupSpecs(&m, groups); err != nil {
			t.Fatalf("C18 VIOLATION key=c18-cross-validation: manifest does not validate against the groups of the same document: %v\n%s", err, canonical)
		}

		// faithfulness against the generator's own tree
		comp := map[string]c18Compute{}
		for _, c := range d.computes {
			comp[c.name] = c
		}
		svc := map[string]c18Service{}
		for _, s := range d.services {
			svc[s.name] = s
		}
		place := map[string]c18Placement{}
		for _, p := range d.placements {
			place[p.name] = p
		}
		usedPl := map[string]bool{}
		for _, dp := range d.deploys {
			usedPl[dp.placement] = true
		}
		if len(m) != len(usedPl) || len(groups) != len(usedPl) {
			t.Fatalf("C18 VIOLATION key=c18-group-count: %d placements in use, %d manifest groups, %d deployment groups\n%s", len(usedPl), len(m), len(groups), canonical)
		}
		for _, dp := range d.deploys {
			var ms *manifest.Service
			for gi := range m {
				if m[gi].Name != dp.placement {
					continue
				}
				for si := range m[gi].Services {
					if m[gi].Services[si].Name == dp.service {
						if ms != nil {
							t.Fatalf("C18 VIOLATION key=c18-service-duplicated: %s/%s twice", dp.placement, dp.service)
						}
						ms = &m[gi].Services[si]
					}
				}
			}
			if ms == nil {
				t.Fatalf("C18 VIOLATION key=c18-service-missing: service %s missing from manifest group %s\n%s", dp.service, dp.placement, canonical)
			}
			s := svc[dp.service]
			c := comp[dp.profile]
			bad := func(field string, got, want interface{}) {
				t.Fatalf("C18 VIOLATION key=c18-unfaithful-%s: service %s in %s: manifest has %s=%#v, the document declares %#v\n%s", field, dp.service, dp.placement, field, got, want, canonical)
			}
			if ms.Image != s.image {
				bad("image", ms.Image, s.image)
			}
			if !sameStrings(ms.Command, s.command) {
				bad("command", ms.Command, s.command)
			}
			if !sameStrings(ms.Args, s.args) {
				bad("args", ms.Args, s.args)
			}
			if !sameStrings(ms.Env, s.env) {
				bad("env", ms.Env, s.env)
			}
			if ms.Count != dp.count {
				bad("count", ms.Count, dp.count)
			}
			if ms.Resources.CPU == nil || ms.Resources.Memory == nil || ms.Resources.Storage == nil {
				bad("resources", ms.Resources, c)
			}
			if !near(ms.Resources.CPU.Units.Value(), c.cpuMilli, c.cpuExact) {
				bad("cpu", ms.Resources.CPU.Units.Value(), c.cpuText)
			}
			if !near(ms.Resources.Memory.Quantity.Value(), c.memBytes, c.memExact) {
				bad("memory", ms.Resources.Memory.Quantity.Value(), c.memText)
			}
			if !near(ms.Resources.Storage.Quantity.Value(), c.stoBytes, c.stoExact) {
				bad("storage", ms.Resources.Storage.Quantity.Value(), c.stoText)
			}
			gotSto := map[string]string{}
			for _, a := range ms.Resources.Storage.Attributes {
				gotSto[a.Key] = a.Value
			}
			if c18AttrString(gotSto) != c18AttrString(c.stoAttrs) || len(ms.Resources.Storage.Attributes) != len(c.stoAttrs) {
				bad("storage attributes", ms.Resources.Storage.Attributes, c18AttrString(c.stoAttrs))
			}
			wantArch := ""
			if c.cpuArch != "" {
				wantArch = "arch=" + c.cpuArch + ";"
			}
			gotCPU := map[string]string{}
			for _, a := range ms.Resources.CPU.Attributes {
				gotCPU[a.Key] = a.Value
			}
			if c18AttrString(gotCPU) != wantArch {
				bad("cpu attributes", ms.Resources.CPU.Attributes, wantArch)
			}
			// exposure as a multiset of tuples
			var want, got []string
			for _, x := range s.expose {
				proto := strings.ToUpper(x.proto)
				if proto == "" {
					proto = "TCP"
				}
				if len(x.to) == 0 {
					want = append(want, fmt.Sprintf("%d/%d/%s/svc=/global=false/%v", x.port, x.as, proto, x.accept))
				}
				for _, to := range x.to {
					want = append(want, fmt.Sprintf("%d/%d/%s/svc=%s/global=%v/%v", x.port, x.as, proto, to.service, to.global, x.accept))
				}
			}
			for _, e := range ms.Expose {
				got = append(got, fmt.Sprintf("%d/%d/%s/svc=%s/global=%v/%v", e.Port, e.ExternalPort, e.Proto, e.Service, e.Global, e.Hosts))
			}
			sort.Strings(want)
			sort.Strings(got)
			if !sameStrings(want, got) {
				bad("expose", got, want)
			}
			// the deployment group side: one resource entry per (service, placement)
			var gspec *dtypes.GroupSpec
			for _, g := range groups {
				if g.Name == dp.placement {
					gspec = g
				}
			}
			if gspec == nil {
				t.Fatalf("C18 VIOLATION key=c18-group-missing: no deployment group %s", dp.placement)
			}
			p := place[dp.placement]
			found := false
			for _, r := range gspec.Resources {
				if r.Count == dp.count && r.Price.Denom == "uakt" && r.Price.Amount.Int64() == p.pricing[dp.profile] &&
					r.Resources.CPU != nil && r.Resources.CPU.Units.Value() == ms.Resources.CPU.Units.Value() &&
					r.Resources.Memory != nil && r.Resources.Memory.Quantity.Value() == ms.Resources.Memory.Quantity.Value() &&
					r.Resources.Storage != nil && r.Resources.Storage.Quantity.Value() == ms.Resources.Storage.Quantity.Value() {
					found = true
				}
			}
			if !found {
				t.Fatalf("C18 VIOLATION key=c18-unfaithful-group: deployment group %s has no resource entry with count %d, price %duakt and the resources of profile %s\n%s", dp.placement, dp.count, p.pricing[dp.profile], dp.profile, canonical)
			}
			// placement requirements
			if len(gspec.Requirements.Attributes) != len(p.attrs) {
				bad("attributes", gspec.Requirements.Attributes, p.attrs)
			}
			for _, a := range gspec.Requirements.Attributes {
				if p.attrs[a.Key] != a.Value {
					bad("attributes", gspec.Requirements.Attributes, p.attrs)
				}
			}
			if !sameStrings(gspec.Requirements.SignedBy.AllOf, p.allOf) || !sameStrings(gspec.Requirements.SignedBy.AnyOf, p.anyOf) {
				bad("signedBy", gspec.Requirements.SignedBy, fmt.Sprint(p.allOf, p.anyOf))
			}
		}
		_ = bytes.Equal
	})
}
