package app

// C17 on the assembled application: certificates are created and revoked by signed
// transactions next to provider, attestation, deployment and market traffic of the same
// accounts, and after every transaction the certificate listings served by the application
// (no filter, by owner, by state, by owner+serial) are compared with a model kept from the
// accepted transactions: every certificate appears with its serial and state in every
// listing whose filter it matches, nothing else appears, and no listing fails.

import (
	"crypto/x509"
	"encoding/pem"
	"fmt"
	"sort"
	"strings"
	"testing"

	sdk "github.com/cosmos/cosmos-sdk/types"

	ctypes "github.com/ovrclk/akash/x/cert/types"
)

const c17ChainRule = "history on the assembled application with >=2 certificates of >=2 owners, >=1 revocation, and >=1 accepted attestation or provider transaction of an account that owns a certificate"

type cmC17 struct {
	cmBaseOracle
	state     map[string]ctypes.Certificate_State // owner/serial -> state
	owners    map[string]bool
	revoked   int
	otherOfCO bool
}

func (o *cmC17) afterTx(m *chainMachine, tx *cmTx) {
	if o.state == nil {
		o.state, o.owners = map[string]ctypes.Certificate_State{}, map[string]bool{}
	}
	if tx.ok && !tx.twin {
		switch x := tx.msg.(type) {
		case *ctypes.MsgCreateCertificate:
			if sn := cmSerialOfPEM(x.Cert); sn != "" {
				o.state[x.Owner+"/"+sn] = ctypes.CertificateValid
				o.owners[x.Owner] = true
			}
		case *ctypes.MsgRevokeCertificate:
			o.state[x.ID.Owner+"/"+x.ID.Serial] = ctypes.CertificateRevoked
			o.revoked++
		default:
			for _, s := range tx.msg.GetSigners() {
				if o.owners[s.String()] {
					o.otherOfCO = true
				}
			}
			if a, ok := tx.msg.(interface{ GetOwner() string }); ok && o.owners[a.GetOwner()] {
				o.otherOfCO = true
			}
		}
	}
	o.compare(m, "after "+tx.label)
}

func (o *cmC17) afterAdvance(m *chainMachine, pre, post *cmSnap) {
	if o.state != nil {
		o.compare(m, "after advancing blocks")
	}
}

func (o *cmC17) nontrivial(m *chainMachine) bool {
	return len(o.state) >= 2 && len(o.owners) >= 2 && o.revoked >= 1 && o.otherOfCO
}

func (o *cmC17) compare(m *chainMachine, what string) {
	q := m.app.keeper.cert.Querier()
	list := func(f ctypes.CertificateFilter) []string {
		resp, err := q.Certificates(sdk.WrapSDKContext(m.ctx()), &ctypes.QueryCertificatesRequest{Filter: f})
		if err != nil {
			m.fatalf("c17-listing-fails", "%s: listing certificates with filter {owner=%q serial=%q state=%q} failed: %v", what, f.Owner, f.Serial, f.State, err)
		}
		var out []string
		for _, c := range resp.Certificates {
			owner := "?"
			if sn := cmOwnerOfPEM(c.Certificate.Cert); sn != "" {
				owner = sn
			}
			out = append(out, fmt.Sprintf("%s/%s=%s", owner, c.Serial, c.Certificate.State))
		}
		sort.Strings(out)
		return out
	}
	want := func(f ctypes.CertificateFilter) []string {
		var out []string
		for k, st := range o.state {
			i := strings.Index(k, "/")
			owner, serial := k[:i], k[i+1:]
			if f.Owner != "" && f.Owner != owner {
				continue
			}
			if f.Serial != "" && f.Serial != serial {
				continue
			}
			if f.State != "" && f.State != st.String() {
				continue
			}
			out = append(out, fmt.Sprintf("%s/%s=%s", owner, serial, st))
		}
		sort.Strings(out)
		return out
	}
	filters := []ctypes.CertificateFilter{{}, {State: "valid"}, {State: "revoked"}}
	var owners []string
	for ow := range o.owners {
		owners = append(owners, ow)
	}
	sort.Strings(owners)
	for _, ow := range owners {
		filters = append(filters, ctypes.CertificateFilter{Owner: ow}, ctypes.CertificateFilter{Owner: ow, State: "valid"}, ctypes.CertificateFilter{Owner: ow, State: "revoked"})
	}
	var keys []string
	for k := range o.state {
		keys = append(keys, k)
	}
	sort.Strings(keys)
	for _, k := range keys {
		i := strings.Index(k, "/")
		filters = append(filters, ctypes.CertificateFilter{Owner: k[:i], Serial: k[i+1:]})
	}
	for _, f := range filters {
		got, exp := list(f), want(f)
		if strings.Join(got, ",") != strings.Join(exp, ",") {
			m.fatalf("c17-listing-differs", "%s: listing with filter {owner=%q serial=%q state=%q} returned %v, the accepted transactions imply %v", what, f.Owner, f.Serial, f.State, got, exp)
		}
	}
}

var cmCertProfile = cmProfile{weights: map[string]int{
	"cert": 10, "audit": 5, "provider": 3, "deployCreate": 2, "marketRound": 2, "advance": 1, "wrongSigner": 1,
	"deployDeposit": 0, "deployUpdate": 0, "groupPause": 0, "groupStart": 0, "groupClose": 0, "exhaustExactly": 0, "withdrawThenClose": 0, "leaseChurn": 0,
}}

func TestVerif_C17_Chain(t *testing.T) {
	cmRun(t, "C17", c17ChainRule, func() cmOracle { return &cmC17{} }, cmCertProfile, false)
}

func cmParsePEM(b []byte) *x509.Certificate {
	blk, _ := pem.Decode(b)
	if blk == nil {
		return nil
	}
	c, err := x509.ParseCertificate(blk.Bytes)
	if err != nil {
		return nil
	}
	return c
}

func cmSerialOfPEM(b []byte) string {
	if c := cmParsePEM(b); c != nil {
		return c.SerialNumber.String()
	}
	return ""
}

func cmOwnerOfPEM(b []byte) string {
	if c := cmParsePEM(b); c != nil {
		return c.Subject.CommonName
	}
	return ""
}
