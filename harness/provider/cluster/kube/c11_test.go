package kube

// C11 — tenant workloads are sandboxed and capped to leased resources.
// (a) builders, (b) client.Deploy against fake clientsets (every recorded action is
// namespaced to the lease), (c) namespace names valid and injective, (d) a small
// semantic evaluator of NetworkPolicy over probe flows.

import (
	"context"
	"fmt"
	"net"
	"regexp"
	"sort"
	"strings"
	"sync"
	"testing"

	"github.com/cosmos/cosmos-sdk/crypto/keys/secp256k1"
	sdk "github.com/cosmos/cosmos-sdk/types"
	"github.com/tendermint/tendermint/libs/log"
	appsv1 "k8s.io/api/apps/v1"
	corev1 "k8s.io/api/core/v1"
	netv1 "k8s.io/api/networking/v1"
	k8serrors "k8s.io/apimachinery/pkg/api/errors"
	"k8s.io/apimachinery/pkg/api/resource"
	metav1 "k8s.io/apimachinery/pkg/apis/meta/v1"
	"k8s.io/apimachinery/pkg/labels"
	"k8s.io/apimachinery/pkg/runtime"
	"k8s.io/apimachinery/pkg/runtime/schema"
	kfake "k8s.io/client-go/kubernetes/fake"
	ktesting "k8s.io/client-go/testing"
	"pgregory.net/rapid"

	"github.com/ovrclk/akash/manifest"
	afake "github.com/ovrclk/akash/pkg/client/clientset/versioned/fake"
	akashtypes "github.com/ovrclk/akash/types"
	mtypes "github.com/ovrclk/akash/x/market/types"
)

const c11Rule = "lease id x manifest group x settings where the group has >=2 services and >=1 global non-HTTP expose, or a commit level > 1; Deploy is run twice (create and update path) on fake clientsets"

var c11Addrs []string

func init() {
	for i := 0; i < 4; i++ {
		priv := secp256k1.GenPrivKeyFromSecret([]byte(fmt.Sprintf("verif-c11-%d", i)))
		c11Addrs = append(c11Addrs, sdk.AccAddress(priv.PubKey().Address()).String())
	}
}

func c11GenLease(t *rapid.T) mtypes.LeaseID {
	return mtypes.LeaseID{
		Owner:    rapid.SampledFrom(c11Addrs).Draw(t, "owner"),
		DSeq:     rapid.SampledFrom([]uint64{0, 1, 11, 12, 2, 256, 1 << 32, 1<<64 - 1}).Draw(t, "dseq"),
		GSeq:     rapid.SampledFrom([]uint32{0, 1, 2, 12, 3, 1<<32 - 1}).Draw(t, "gseq"),
		OSeq:     rapid.SampledFrom([]uint32{1, 2, 3, 23, 1<<32 - 1}).Draw(t, "oseq"),
		Provider: rapid.SampledFrom(c11Addrs).Draw(t, "provider"),
	}
}

func c11GenGroup(t *rapid.T) manifest.Group {
	g := manifest.Group{Name: "grp"}
	ns := rapid.IntRange(1, 4).Draw(t, "services")
	for i := 0; i < ns; i++ {
		s := manifest.Service{
			Name:  fmt.Sprintf("svc%d", i),
			Image: "img",
			Count: uint32(rapid.IntRange(1, 3).Draw(t, "count")),
			Resources: akashtypes.ResourceUnits{
				CPU:     &akashtypes.CPU{Units: akashtypes.NewResourceValue(rapid.SampledFrom([]uint64{10, 11, 100, 333, 1000, 10000}).Draw(t, "cpu"))},
				Memory:  &akashtypes.Memory{Quantity: akashtypes.NewResourceValue(rapid.SampledFrom([]uint64{1 << 20, 1<<20 + 1, 128 << 20, 16 << 30}).Draw(t, "mem"))},
				Storage: &akashtypes.Storage{Quantity: akashtypes.NewResourceValue(rapid.SampledFrom([]uint64{5 << 20, 7777777, 1 << 30, 1 << 40}).Draw(t, "sto"))},
			},
		}
		s.Env = rapid.SliceOfN(rapid.SampledFrom([]string{"FOO=bar", "X", "AKASH_OWNER=evil", "AKASH_GROUP_SEQUENCE=9", "A=b=c"}), 0, 3).Draw(t, "env")
		ne := rapid.IntRange(0, 4).Draw(t, "exposes")
		for j := 0; j < ne; j++ {
			e := manifest.ServiceExpose{
				Port:   uint16(rapid.SampledFrom([]int{80, 81, 443, 8080, 53, 5432}).Draw(t, "port")),
				Proto:  rapid.SampledFrom([]manifest.ServiceProtocol{manifest.TCP, manifest.UDP}).Draw(t, "proto"),
				Global: rapid.Bool().Draw(t, "global"),
			}
			if rapid.IntRange(0, 2).Draw(t, "as") == 0 {
				e.ExternalPort = uint16(rapid.SampledFrom([]int{80, 8081}).Draw(t, "asPort"))
			}
			if !e.Global {
				e.Service = "other"
			}
			if rapid.IntRange(0, 3).Draw(t, "host") == 0 {
				e.Hosts = []string{fmt.Sprintf("h%d-%d.example.com", i, j)}
			}
			s.Expose = append(s.Expose, e)
		}
		g.Services = append(g.Services, s)
	}
	return g
}

func c11GenSettings(t *rapid.T) Settings {
	lv := []float64{0.5, 1, 1.5, 2, 3.7, 8}
	s := Settings{
		DeploymentServiceType:  corev1.ServiceTypeClusterIP,
		ClusterPublicHostname:  "provider.example.com",
		NetworkPoliciesEnabled: rapid.Bool().Draw(t, "netpol"),
		CPUCommitLevel:         rapid.SampledFrom(lv).Draw(t, "cpuCommit"),
		MemoryCommitLevel:      rapid.SampledFrom(lv).Draw(t, "memCommit"),
		StorageCommitLevel:     rapid.SampledFrom(lv).Draw(t, "stoCommit"),
		DeploymentRuntimeClass: rapid.SampledFrom([]string{"", "none", "gvisor"}).Draw(t, "runtimeClass"),
	}
	if rapid.Bool().Draw(t, "staticHosts") {
		s.DeploymentIngressStaticHosts = true
		s.DeploymentIngressDomain = "ingress.example.com"
	}
	return s
}

var c11DNSLabel = regexp.MustCompile(`^[a-z0-9]([-a-z0-9]*[a-z0-9])?$`)

// ---- network policy semantic evaluator -----------------------------------------------------

type c11Peer struct {
	ns       string            // "" for an address outside the cluster
	nsLabels map[string]string // labels of the peer's namespace
	labels   map[string]string // pod labels
	ip       string
}

func c11SelMatch(sel *metav1.LabelSelector, lbls map[string]string) bool {
	if sel == nil {
		return false
	}
	s, err := metav1.LabelSelectorAsSelector(sel)
	if err != nil {
		return false
	}
	return s.Matches(labels.Set(lbls))
}

func c11IPBlockMatch(b *netv1.IPBlock, ip string) bool {
	if b == nil || ip == "" {
		return false
	}
	_, cidr, err := net.ParseCIDR(b.CIDR)
	if err != nil || !cidr.Contains(net.ParseIP(ip)) {
		return false
	}
	for _, ex := range b.Except {
		if _, e, err := net.ParseCIDR(ex); err == nil && e.Contains(net.ParseIP(ip)) {
			return false
		}
	}
	return true
}

func c11PeerMatch(policyNS string, p netv1.NetworkPolicyPeer, peer c11Peer) bool {
	if p.IPBlock != nil {
		return c11IPBlockMatch(p.IPBlock, peer.ip)
	}
	if peer.ns == "" {
		return false
	}
	switch {
	case p.NamespaceSelector != nil && p.PodSelector != nil:
		return c11SelMatch(p.NamespaceSelector, peer.nsLabels) && c11SelMatch(p.PodSelector, peer.labels)
	case p.NamespaceSelector != nil:
		return c11SelMatch(p.NamespaceSelector, peer.nsLabels)
	case p.PodSelector != nil:
		return peer.ns == policyNS && c11SelMatch(p.PodSelector, peer.labels)
	}
	return false
}

func c11PortsMatch(ports []netv1.NetworkPolicyPort, port int, proto corev1.Protocol) bool {
	if len(ports) == 0 {
		return true
	}
	for _, pp := range ports {
		pr := corev1.ProtocolTCP
		if pp.Protocol != nil && *pp.Protocol != "" {
			pr = *pp.Protocol
		}
		if pr != proto {
			continue
		}
		if pp.Port == nil || pp.Port.IntValue() == port {
			return true
		}
	}
	return false
}

// c11Allowed evaluates whether a flow to/from the pod (in namespace ns with podLabels) is admitted.
func c11Allowed(pols []*netv1.NetworkPolicy, ns string, podLabels map[string]string, ingress bool, peer c11Peer, port int, proto corev1.Protocol) bool {
	selected := false
	for _, pol := range pols {
		if pol.Namespace != ns || !c11SelMatch(&pol.Spec.PodSelector, podLabels) {
			continue
		}
		want := netv1.PolicyTypeEgress
		if ingress {
			want = netv1.PolicyTypeIngress
		}
		has := false
		for _, pt := range pol.Spec.PolicyTypes {
			if pt == want {
				has = true
			}
		}
		if len(pol.Spec.PolicyTypes) == 0 && ingress {
			has = true
		}
		if !has {
			continue
		}
		selected = true
		if ingress {
			for _, r := range pol.Spec.Ingress {
				if !c11PortsMatch(r.Ports, port, proto) {
					continue
				}
				if len(r.From) == 0 {
					return true
				}
				for _, f := range r.From {
					if c11PeerMatch(ns, f, peer) {
						return true
					}
				}
			}
		} else {
			for _, r := range pol.Spec.Egress {
				if !c11PortsMatch(r.Ports, port, proto) {
					continue
				}
				if len(r.To) == 0 {
					return true
				}
				for _, f := range r.To {
					if c11PeerMatch(ns, f, peer) {
						return true
					}
				}
			}
		}
	}
	return !selected // not selected by any policy of that type: everything is allowed
}

// ---- the check ---------------------------------------------------------------------------------

var c11NSMu sync.Mutex
var c11NSSeen = map[string]string{} // namespace -> lease id rendering (injectivity across the whole run)

func c11CheckContainer(t *rapid.T, where string, c corev1.Container, svc manifest.Service, st Settings) {
	sc := c.SecurityContext
	if sc == nil || sc.Privileged == nil || *sc.Privileged || sc.AllowPrivilegeEscalation == nil || *sc.AllowPrivilegeEscalation {
		t.Fatalf("C11 VIOLATION key=c11-privileged: %s: container security context allows privilege: %+v", where, sc)
	}
	want := map[corev1.ResourceName]resource.Quantity{
		corev1.ResourceCPU:              *resource.NewScaledQuantity(int64(svc.Resources.CPU.Units.Value()), resource.Milli),
		corev1.ResourceMemory:           *resource.NewQuantity(int64(svc.Resources.Memory.Quantity.Value()), resource.DecimalSI),
		corev1.ResourceEphemeralStorage: *resource.NewQuantity(int64(svc.Resources.Storage.Quantity.Value()), resource.DecimalSI),
	}
	for name, w := range want {
		lim, ok := c.Resources.Limits[name]
		if !ok || lim.Cmp(w) != 0 {
			t.Fatalf("C11 VIOLATION key=c11-limit: %s: limit %s = %s, leased %s", where, name, lim.String(), w.String())
		}
		req, ok := c.Resources.Requests[name]
		if !ok || req.Cmp(lim) > 0 || req.Sign() <= 0 {
			t.Fatalf("C11 VIOLATION key=c11-request: %s: request %s = %s with limit %s (must be >0 and <= limit)", where, name, req.String(), lim.String())
		}
	}
	if len(c.Resources.Limits) != 3 {
		t.Fatalf("C11 VIOLATION key=c11-limit: %s: unexpected limits %v", where, c.Resources.Limits)
	}
}

func TestVerif_C11(t *testing.T) {
	vsInit("C11", c11Rule)
	defer vsFlush()
	rapid.Check(t, func(t *rapid.T) {
		lid := c11GenLease(t)
		group := c11GenGroup(t)
		st := c11GenSettings(t)
		ns := lidNS(lid)
		nontrivial := st.CPUCommitLevel > 1 || st.MemoryCommitLevel > 1 || st.StorageCommitLevel > 1
		if len(group.Services) >= 2 {
			for _, s := range group.Services {
				for _, e := range s.Expose {
					if e.Global && !(e.Proto == manifest.TCP && (e.ExternalPort == 80 || (e.ExternalPort == 0 && e.Port == 80))) {
						nontrivial = true
					}
				}
			}
		}
		vsCase(fmt.Sprintf("lease=%v settings=%+v group=%+v", lid, st, group), nontrivial)

		// (c) namespace names: DNS-1123 label, <= 63 chars, injective over the run
		if !c11DNSLabel.MatchString(ns) || len(ns) > 63 {
			t.Fatalf("C11 VIOLATION key=c11-namespace-name: %q derived from %v is not a valid DNS-1123 label", ns, lid)
		}
		c11NSMu.Lock()
		prev, seen := c11NSSeen[ns]
		if len(c11NSSeen) < 200000 {
			c11NSSeen[ns] = fmt.Sprintf("%s|%d|%d|%d|%s", lid.Owner, lid.DSeq, lid.GSeq, lid.OSeq, lid.Provider)
		}
		c11NSMu.Unlock()
		if seen && prev != fmt.Sprintf("%s|%d|%d|%d|%s", lid.Owner, lid.DSeq, lid.GSeq, lid.OSeq, lid.Provider) {
			t.Fatalf("C11 VIOLATION key=c11-namespace-collision: leases %s and %v share namespace %s", prev, lid, ns)
		}

		// (a) builders
		logger := log.NewNopLogger()
		nsObj, _ := newNSBuilder(st, lid, &group).create()
		if nsObj.Name != ns {
			t.Fatalf("C11 VIOLATION key=c11-ns-object: namespace object named %q, want %q", nsObj.Name, ns)
		}
		for i := range group.Services {
			svc := &group.Services[i]
			db := newDeploymentBuilder(logger, st, lid, &group, svc)
			if db.ns() != ns {
				t.Fatalf("C11 VIOLATION key=c11-builder-ns: deployment builder namespace %q", db.ns())
			}
			d, err := db.create()
			if err != nil {
				t.Fatalf("deployment builder: %v", err)
			}
			ps := d.Spec.Template.Spec
			if ps.AutomountServiceAccountToken == nil || *ps.AutomountServiceAccountToken {
				t.Fatalf("C11 VIOLATION key=c11-automount: service account token is mounted")
			}
			if len(ps.Containers) != 1 {
				t.Fatalf("C11 VIOLATION key=c11-containers: %d containers", len(ps.Containers))
			}
			c11CheckContainer(t, "builder.create "+svc.Name, ps.Containers[0], *svc, st)
			if ps.HostNetwork || ps.HostPID || ps.HostIPC {
				t.Fatalf("C11 VIOLATION key=c11-host-namespaces: pod uses host namespaces")
			}
			for _, v := range ps.Volumes {
				if v.HostPath != nil {
					t.Fatalf("C11 VIOLATION key=c11-hostpath: pod mounts host path")
				}
			}
			if d.Namespace != "" && d.Namespace != ns {
				t.Fatalf("C11 VIOLATION key=c11-object-ns: deployment object in namespace %q", d.Namespace)
			}
			if d.Spec.Selector.MatchLabels[akashNetworkNamespace] != ns || d.Spec.Template.Labels[akashNetworkNamespace] != ns {
				t.Fatalf("C11 VIOLATION key=c11-selector: deployment selector/labels do not carry the lease namespace")
			}
		}
		pols, err := newNetPolBuilder(st, lid, &group).create()
		if err != nil {
			t.Fatalf("netpol builder: %v", err)
		}
		for _, p := range pols {
			if p.Namespace != ns {
				t.Fatalf("C11 VIOLATION key=c11-netpol-ns: network policy %s in namespace %q, want %q", p.Name, p.Namespace, ns)
			}
		}
		if st.NetworkPoliciesEnabled {
			c11CheckNetPol(t, pols, lid, group)
		}

		// (b) Deploy on fake clientsets, twice (create path, update path)
		kc := kfake.NewSimpleClientset()
		ac := afake.NewSimpleClientset()
		cl := &client{kc: kc, ac: ac, ns: "lease", settings: st, log: logger}
		// the second round is the update path: usually with a changed manifest (services and exposes differ)
		original := group
		updated := group
		if rapid.IntRange(0, 3).Draw(t, "updateChangesManifest") > 0 {
			updated = c11GenGroup(t)
		}
		// sometimes the update hits one API error (a one-shot fault on a drawn verb/resource); the
		// provider retries the same manifest in a third round. Whatever Deploy() reports as a
		// success must leave objects that match the manifest it was given.
		rounds := 2
		faultRound := -1
		var faultVerb, faultRes string
		faultConflict := false
		if rapid.IntRange(0, 2).Draw(t, "faultDuringUpdate") == 0 {
			rounds, faultRound = 3, rapid.SampledFrom([]int{1, 1, 0}).Draw(t, "faultRound")
			faultVerb = rapid.SampledFrom([]string{"update", "create", "delete-collection"}).Draw(t, "faultVerb")
			faultRes = rapid.SampledFrom([]string{"deployments", "deployments", "services", "ingresses", "networkpolicies"}).Draw(t, "faultResource")
			faultConflict = faultVerb == "update" && rapid.Bool().Draw(t, "faultIsConflict")
		}
		for round := 0; round < rounds; round++ {
			kc.ClearActions()
			ac.ClearActions()
			if round >= 1 {
				group = updated
			}
			fired := false
			if round == faultRound {
				armed := true
				kc.PrependReactor(faultVerb, faultRes, func(ktesting.Action) (bool, runtime.Object, error) {
					if !armed {
						return false, nil, nil
					}
					armed, fired = false, true
					if faultConflict {
						// what the API server answers when the object changed since it was read
						return true, nil, k8serrors.NewConflict(schema.GroupResource{Resource: faultRes}, "object", fmt.Errorf("verif: the object has been modified"))
					}
					return true, nil, fmt.Errorf("verif: injected API error on %s %s", faultVerb, faultRes)
				})
				defer func() { armed = false }()
			}
			if err := cl.Deploy(context.Background(), lid, &group); err != nil {
				if fired {
					vsLabel("deploy-failed-by-injected-fault:" + faultVerb + "-" + faultRes)
					// whatever a failed Deploy leaves behind: workloads that exist are isolated (the
					// restrictions are in place, and nothing but the ports exposed globally by the
					// previous or the new manifest is admitted from outside)
					if st.NetworkPoliciesEnabled {
						left, _ := kc.AppsV1().Deployments(metav1.NamespaceAll).List(context.Background(), metav1.ListOptions{})
						if len(left.Items) > 0 {
							merged := manifest.Group{Name: group.Name}
							merged.Services = append(merged.Services, group.Services...)
							if round >= 1 {
								merged.Services = append(merged.Services, original.Services...)
							}
							// one entry per workload that exists, carrying the exposes of every version of that service
							var present manifest.Group
							for _, d := range left.Items {
								svc := manifest.Service{Name: d.Name}
								for _, ms := range merged.Services {
									if ms.Name == d.Name {
										svc.Expose = append(svc.Expose, ms.Expose...)
									}
								}
								present.Services = append(present.Services, svc)
							}
							// ports exposed globally by ANY service of either version count as exposed
							for i := range present.Services {
								for _, ms := range merged.Services {
									if ms.Name != present.Services[i].Name {
										for _, e := range ms.Expose {
											if e.Global {
												present.Services[i].Expose = append(present.Services[i].Expose, e)
											}
										}
									}
								}
							}
							np, _ := kc.NetworkingV1().NetworkPolicies(metav1.NamespaceAll).List(context.Background(), metav1.ListOptions{})
							var stored []*netv1.NetworkPolicy
							for i := range np.Items {
								stored = append(stored, &np.Items[i])
							}
							if len(stored) == 0 {
								t.Fatalf("C11 VIOLATION key=c11-workload-without-policies: round %d: Deploy failed (%v) and left %d workload(s) in namespace %s without any network policy", round, err, len(left.Items), ns)
							}
							c11CheckNetPol(t, stored, lid, present)
						}
					}
					continue // the retry is the next round
				}
				// a manifest the builders cannot express is a refusal, not a violation of this property
				vsLabel("deploy-refused")
				return
			}
			for _, a := range kc.Actions() {
				res := a.GetResource().Resource
				if res == "namespaces" {
					name := ""
					switch x := a.(type) {
					case ktesting.GetAction:
						name = x.GetName()
					case ktesting.CreateAction:
						name = x.GetObject().(*corev1.Namespace).Name
					case ktesting.UpdateAction:
						name = x.GetObject().(*corev1.Namespace).Name
					case ktesting.DeleteAction:
						name = x.GetName()
					}
					if name != ns {
						t.Fatalf("C11 VIOLATION key=c11-foreign-namespace: Deploy touched namespace %q (verb %s), lease namespace is %q", name, a.GetVerb(), ns)
					}
					continue
				}
				if a.GetNamespace() != ns {
					t.Fatalf("C11 VIOLATION key=c11-action-outside-namespace: Deploy issued %s %s in namespace %q, lease namespace is %q", a.GetVerb(), res, a.GetNamespace(), ns)
				}
				// objects written must themselves not claim another namespace
				var obj metav1.Object
				switch x := a.(type) {
				case ktesting.CreateAction:
					obj, _ = x.GetObject().(metav1.Object)
				case ktesting.UpdateAction:
					obj, _ = x.GetObject().(metav1.Object)
				}
				if obj != nil && obj.GetNamespace() != "" && obj.GetNamespace() != ns {
					t.Fatalf("C11 VIOLATION key=c11-object-ns: %s %s object %s carries namespace %q", a.GetVerb(), res, obj.GetName(), obj.GetNamespace())
				}
			}
			for _, a := range ac.Actions() {
				if a.GetNamespace() != "lease" {
					t.Fatalf("C11 VIOLATION key=c11-manifest-crd-ns: manifest CRD action in namespace %q", a.GetNamespace())
				}
			}
			// what ended up in the (fake) cluster
			deps, _ := kc.AppsV1().Deployments(metav1.NamespaceAll).List(context.Background(), metav1.ListOptions{})
			if len(deps.Items) < len(group.Services) {
				t.Fatalf("C11 VIOLATION key=c11-deployment-count: %d deployments for %d services", len(deps.Items), len(group.Services))
			}
			sort.Slice(deps.Items, func(i, j int) bool { return deps.Items[i].Name < deps.Items[j].Name })
			for _, d := range deps.Items {
				c11CheckStored(t, round, d, ns, group, st)
			}
			svcs, _ := kc.CoreV1().Services(metav1.NamespaceAll).List(context.Background(), metav1.ListOptions{})
			for _, s := range svcs.Items {
				if s.Namespace != ns || s.Spec.Selector[akashNetworkNamespace] != ns {
					t.Fatalf("C11 VIOLATION key=c11-service-ns: service %s in %q selects %v", s.Name, s.Namespace, s.Spec.Selector)
				}
			}
			ings, _ := kc.NetworkingV1().Ingresses(metav1.NamespaceAll).List(context.Background(), metav1.ListOptions{})
			for _, in := range ings.Items {
				if in.Namespace != ns {
					t.Fatalf("C11 VIOLATION key=c11-ingress-ns: ingress %s in %q", in.Name, in.Namespace)
				}
			}
			nps, _ := kc.NetworkingV1().NetworkPolicies(metav1.NamespaceAll).List(context.Background(), metav1.ListOptions{})
			for _, np := range nps.Items {
				if np.Namespace != ns {
					t.Fatalf("C11 VIOLATION key=c11-netpol-ns: stored network policy %s in %q", np.Name, np.Namespace)
				}
			}
			if st.NetworkPoliciesEnabled {
				var stored []*netv1.NetworkPolicy
				for i := range nps.Items {
					stored = append(stored, &nps.Items[i])
				}
				c11CheckNetPol(t, stored, lid, group)
			}
			// metamorphic: what an update leaves behind for the objects of the current manifest is
			// what a first deploy of that manifest generates (node ports aside): services forward
			// to the ports of THIS manifest, ingresses route the hosts of THIS manifest
			if round >= 1 {
				kc2 := kfake.NewSimpleClientset()
				cl2 := &client{kc: kc2, ac: afake.NewSimpleClientset(), ns: "lease", settings: st, log: logger}
				if err := cl2.Deploy(context.Background(), lid, &group); err == nil {
					fresh, _ := kc2.CoreV1().Services(metav1.NamespaceAll).List(context.Background(), metav1.ListOptions{})
					portsOf := func(sv corev1.Service) string {
						var ps []string
						for _, p := range sv.Spec.Ports {
							ps = append(ps, fmt.Sprintf("%s:%d->%s/%s", p.Name, p.Port, p.TargetPort.String(), p.Protocol))
						}
						sort.Strings(ps)
						return string(sv.Spec.Type) + " " + strings.Join(ps, ",")
					}
					for _, f := range fresh.Items {
						for _, sv := range svcs.Items {
							if sv.Name == f.Name && portsOf(sv) != portsOf(f) {
								t.Fatalf("C11 VIOLATION key=c11-update-differs-from-fresh-deploy: round %d: after the update service %s is {%s}, a first deploy of the same manifest generates {%s}", round, sv.Name, portsOf(sv), portsOf(f))
							}
						}
					}
					freshIng, _ := kc2.NetworkingV1().Ingresses(metav1.NamespaceAll).List(context.Background(), metav1.ListOptions{})
					rulesOf := func(in netv1.Ingress) string {
						var rs []string
						for _, r := range in.Spec.Rules {
							rs = append(rs, r.Host)
						}
						sort.Strings(rs)
						return strings.Join(rs, ",")
					}
					for _, f := range freshIng.Items {
						for _, in := range ings.Items {
							if in.Name == f.Name && rulesOf(in) != rulesOf(f) {
								t.Fatalf("C11 VIOLATION key=c11-update-differs-from-fresh-deploy: round %d: after the update ingress %s routes hosts {%s}, a first deploy of the same manifest generates {%s}", round, in.Name, rulesOf(in), rulesOf(f))
							}
						}
					}
				}
			}
		}
	})
}

func c11CheckStored(t *rapid.T, round int, d appsv1.Deployment, ns string, group manifest.Group, st Settings) {
	if d.Namespace != ns {
		t.Fatalf("C11 VIOLATION key=c11-deployment-ns: round %d: deployment %s stored in namespace %q, want %q", round, d.Name, d.Namespace, ns)
	}
	var svc *manifest.Service
	for i := range group.Services {
		if group.Services[i].Name == d.Name {
			svc = &group.Services[i]
		}
	}
	if svc == nil {
		// a workload of the previous manifest version: the fake clientset does not implement
		// DeleteCollection, so cleanupStaleResources cannot remove it here; it still has to be in the namespace
		return
	}
	ps := d.Spec.Template.Spec
	if ps.AutomountServiceAccountToken == nil || *ps.AutomountServiceAccountToken {
		t.Fatalf("C11 VIOLATION key=c11-automount: round %d: service account token is mounted", round)
	}
	for _, c := range ps.Containers {
		c11CheckContainer(t, fmt.Sprintf("round %d stored %s", round, d.Name), c, *svc, st)
	}
}

func c11CheckNetPol(t *rapid.T, pols []*netv1.NetworkPolicy, lid mtypes.LeaseID, group manifest.Group) {
	ns := lidNS(lid)
	if len(pols) == 0 {
		t.Fatalf("C11 VIOLATION key=c11-netpol-missing: network policies enabled but none generated")
	}
	globalPorts := map[string]bool{}
	for _, s := range group.Services {
		for _, e := range s.Expose {
			if e.Global {
				p := int(e.ExternalPort)
				if p == 0 {
					p = int(e.Port)
				}
				pr := "TCP"
				if e.Proto == manifest.UDP {
					pr = "UDP"
				}
				globalPorts[fmt.Sprintf("%d/%s", p, pr)] = true
			}
		}
	}
	otherTenantNS := "zzothertenantnamespace"
	outside := []struct {
		name      string
		peer      c11Peer
		isIngress bool // the ingress controller
	}{
		{"pod of another tenant", c11Peer{ns: otherTenantNS, nsLabels: map[string]string{akashNetworkNamespace: otherTenantNS, akashManagedLabelName: "true"}, labels: map[string]string{akashNetworkNamespace: otherTenantNS}, ip: "10.42.7.9"}, false},
		{"pod of another tenant forging labels", c11Peer{ns: otherTenantNS, nsLabels: map[string]string{akashNetworkNamespace: otherTenantNS}, labels: map[string]string{akashNetworkNamespace: ns, "app.kubernetes.io/name": "ingress-nginx", akashManifestServiceLabelName: "svc0"}, ip: "10.42.7.10"}, false},
		{"kube-system pod", c11Peer{ns: "kube-system", nsLabels: map[string]string{"kubernetes.io/metadata.name": "kube-system"}, labels: map[string]string{"k8s-app": "kube-dns"}, ip: "10.42.0.2"}, false},
		{"ingress controller", c11Peer{ns: "ingress-nginx", nsLabels: map[string]string{"app.kubernetes.io/name": "ingress-nginx"}, labels: map[string]string{"app.kubernetes.io/name": "ingress-nginx"}, ip: "10.42.0.9"}, true},
		{"public address", c11Peer{ip: "8.8.8.8"}, false},
		{"private address outside the cluster", c11Peer{ip: "192.168.5.5"}, false},
	}
	probes := []struct {
		port  int
		proto corev1.Protocol
	}{{80, "TCP"}, {81, "TCP"}, {443, "TCP"}, {8080, "TCP"}, {8081, "TCP"}, {53, "UDP"}, {53, "TCP"}, {5432, "TCP"}, {5432, "UDP"}, {80, "UDP"}, {22, "TCP"}, {8080, "UDP"}}
	for _, s := range group.Services {
		podLabels := map[string]string{akashManagedLabelName: "true", akashNetworkNamespace: ns, akashManifestServiceLabelName: s.Name}
		for _, src := range outside {
			for _, pr := range probes {
				if !c11Allowed(pols, ns, podLabels, true, src.peer, pr.port, pr.proto) {
					continue
				}
				if src.isIngress || globalPorts[fmt.Sprintf("%d/%s", pr.port, pr.proto)] {
					continue
				}
				t.Fatalf("C11 VIOLATION key=c11-netpol-ingress: ingress from %s to service %s on %d/%s is admitted although the tenant did not expose that port globally (global ports: %v)", src.name, s.Name, pr.port, pr.proto, globalPorts)
			}
		}
		// same-namespace traffic stays possible (sanity of the evaluator, not a property clause)
		same := c11Peer{ns: ns, nsLabels: map[string]string{akashNetworkNamespace: ns}, labels: map[string]string{akashNetworkNamespace: ns}, ip: "10.42.1.1"}
		_ = same
		// egress: nothing to RFC1918 ranges outside the namespace, DNS excepted
		for _, dst := range []c11Peer{
			{ip: "10.0.0.1"}, {ip: "10.96.0.1"}, {ip: "172.16.5.5"}, {ip: "172.31.255.1"}, {ip: "192.168.1.1"},
			{ns: otherTenantNS, nsLabels: map[string]string{akashNetworkNamespace: otherTenantNS}, labels: map[string]string{akashNetworkNamespace: otherTenantNS}, ip: "10.42.7.9"},
			{ns: "kube-system", nsLabels: map[string]string{}, labels: map[string]string{"component": "kube-apiserver"}, ip: "10.96.0.1"},
		} {
			for _, pr := range probes {
				if pr.port == 53 {
					continue
				}
				if c11Allowed(pols, ns, podLabels, false, dst, pr.port, pr.proto) {
					t.Fatalf("C11 VIOLATION key=c11-netpol-egress: egress from service %s to private address %s (%s) on %d/%s is admitted", s.Name, dst.ip, dst.ns, pr.port, pr.proto)
				}
			}
		}
	}
	_ = strings.TrimSpace
}
