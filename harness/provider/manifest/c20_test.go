package manifest

// C20 — manifest submissions are answered exactly once; announce only when complete.
// (Also the C10 version gate: a submission is accepted only if its hash equals the
// version recorded on chain / announced by the latest update event.)
// The real manager (newManager) over a real bus; the deployment query is gated; after
// every step a rendezvous barrier with the manager loop proves the step was processed.

import (
	"context"
	"errors"
	"fmt"
	"reflect"
	"strings"
	"sync"
	"testing"
	"time"
	"unsafe"

	lifecycle "github.com/boz/go-lifecycle"
	"github.com/cosmos/cosmos-sdk/crypto/keys/secp256k1"
	sdk "github.com/cosmos/cosmos-sdk/types"
	"github.com/tendermint/tendermint/libs/log"
	"google.golang.org/grpc"
	"pgregory.net/rapid"

	clientmocks "github.com/ovrclk/akash/client/mocks"
	"github.com/ovrclk/akash/manifest"
	"github.com/ovrclk/akash/provider/cluster"
	"github.com/ovrclk/akash/provider/event"
	"github.com/ovrclk/akash/provider/session"
	"github.com/ovrclk/akash/pubsub"
	"github.com/ovrclk/akash/sdl"
	atypes "github.com/ovrclk/akash/types"
	dtypes "github.com/ovrclk/akash/x/deployment/types"
	mtypes "github.com/ovrclk/akash/x/market/types"
	ptypes "github.com/ovrclk/akash/x/provider/types"
)

const c20Rule = "schedule in which at least one submission is outstanding (unanswered) when a chain fetch completes, a lease is removed, the deployment is closed or shutdown happens"

const c20Wait = 20 * time.Second

type c20Query struct {
	*clientmocks.QueryClient
	mu    sync.Mutex
	calls chan chan c20FetchResult
}

type c20FetchResult struct {
	res *dtypes.QueryDeploymentResponse
	err error
}

func (q *c20Query) Deployment(ctx context.Context, in *dtypes.QueryDeploymentRequest, opts ...grpc.CallOption) (*dtypes.QueryDeploymentResponse, error) {
	ch := make(chan c20FetchResult, 1)
	q.calls <- ch
	r := <-ch
	return r.res, r.err
}

func c20RU() atypes.ResourceUnits {
	return atypes.ResourceUnits{
		CPU:     &atypes.CPU{Units: atypes.NewResourceValue(100)},
		Memory:  &atypes.Memory{Quantity: atypes.NewResourceValue(16 << 20)},
		Storage: &atypes.Storage{Quantity: atypes.NewResourceValue(64 << 20)},
	}
}

// c20Manifest builds a manifest that matches the two on-chain groups "g" and "h"; variant changes
// the content (and hash); count is the replica count of the service in group g.
func c20Manifest(variant int, host string, count uint32, emptySvc bool) manifest.Manifest {
	return c20Manifest2(variant, host, count, 2, emptySvc)
}

func c20Manifest2(variant int, host string, countG, countH uint32, emptySvc bool) manifest.Manifest {
	svc := manifest.Service{Name: "web", Image: fmt.Sprintf("img:%d", variant), Count: countG, Resources: c20RU(),
		Expose: []manifest.ServiceExpose{{Port: 80, Proto: manifest.TCP, Global: true}}}
	if host != "" {
		svc.Expose[0].Hosts = []string{host}
	}
	g := manifest.Group{Name: "g", Services: []manifest.Service{svc}}
	if emptySvc {
		g.Services = nil
	}
	api := manifest.Service{Name: "api", Image: fmt.Sprintf("api:%d", variant), Count: countH, Resources: c20RU(),
		Expose: []manifest.ServiceExpose{{Port: 80, Proto: manifest.TCP, Global: true}}}
	h := manifest.Group{Name: "h", Services: []manifest.Service{api}}
	return manifest.Manifest{g, h}
}

// c20SetHosts gives every ingress service of the manifest a free hostname of its own.
func c20SetHosts(mf manifest.Manifest) {
	for gi := range mf {
		for si := range mf[gi].Services {
			mf[gi].Services[si].Expose[0].Hosts = []string{fmt.Sprintf("free-%s.example.com", mf[gi].Services[si].Name)}
		}
	}
}

// c20Request builds the request exactly as service.Submit does, but does not depend on whether
// the unexported `value` field holds the submission by pointer or by value (a refactoring that
// must not make the harness fail to build).
func c20Request(did dtypes.DeploymentID, mf manifest.Manifest, ch chan error) manifestRequest {
	req := manifestRequest{ch: ch, ctx: context.Background()}
	sub := submitRequest{Deployment: did, Manifest: mf}
	f := reflect.ValueOf(&req).Elem().FieldByName("value")
	f = reflect.NewAt(f.Type(), unsafe.Pointer(f.UnsafeAddr())).Elem()
	if f.Kind() == reflect.Ptr {
		f.Set(reflect.ValueOf(&sub))
	} else {
		f.Set(reflect.ValueOf(sub))
	}
	return req
}

// c20Hostnames wraps the hostname service so that the schedule can keep the manager busy inside
// its availability check (the manager is then out of its select loop).
type c20Hostnames struct {
	*cluster.SimpleHostnames
	mu      sync.Mutex
	gate    chan struct{} // non-nil: availability checks wait for it to be closed
	entered chan struct{}
}

func (h *c20Hostnames) CanReserveHostnames(hostnames []string, did dtypes.DeploymentID) <-chan error {
	h.mu.Lock()
	g := h.gate
	h.mu.Unlock()
	if g == nil {
		return h.SimpleHostnames.CanReserveHostnames(hostnames, did)
	}
	out := make(chan error, 1)
	select {
	case h.entered <- struct{}{}:
	default:
	}
	go func() {
		<-g
		out <- <-h.SimpleHostnames.CanReserveHostnames(hostnames, did)
	}()
	return out
}

type c20Sub struct {
	id      int
	ch      chan error
	replied bool
	kind    string
	hash    []byte
	valid   bool // valid against the groups / hostnames (independent of version, leases, data)
	m       manifest.Manifest
}

type c20Sentinel struct{ n int }

func TestVerif_C20(t *testing.T) {
	vsInit("C20", c20Rule)
	defer vsFlush()
	rapid.Check(t, func(t *rapid.T) { c20Machine(t, "C20") })
}

const c10GateRule = "manager schedule in which a submission is judged against fetched chain data after >=1 version update was seen, or whose hash differs from the recorded version"

// The same machine decides C10's version gate ("accepted only if the hash equals the version
// recorded on chain (or the latest update event)"): the acceptance oracle is shared, what
// counts as a non-trivial case differs.
func TestVerif_C10_VersionGate(t *testing.T) {
	vsInit("C10", c10GateRule)
	defer vsFlush()
	rapid.Check(t, func(t *rapid.T) { c20Machine(t, "C10") })
}

func c20Machine(t *rapid.T, prop string) {
	{
		provider := sdk.AccAddress(secp256k1.GenPrivKeyFromSecret([]byte("verif-c20-prov")).PubKey().Address())
		owner := sdk.AccAddress(secp256k1.GenPrivKeyFromSecret([]byte("verif-c20-owner")).PubKey().Address())
		did := dtypes.DeploymentID{Owner: owner.String(), DSeq: 9}
		dgroup := dtypes.Group{GroupID: dtypes.GroupID{Owner: did.Owner, DSeq: did.DSeq, GSeq: 1}, State: dtypes.GroupOpen, GroupSpec: dtypes.GroupSpec{
			Name: "g", Resources: []dtypes.Resource{{Resources: func() atypes.ResourceUnits {
				u := c20RU()
				u.Endpoints = []atypes.Endpoint{{Kind: atypes.Endpoint_SHARED_HTTP}}
				return u
			}(), Count: 2, Price: sdk.NewInt64Coin("uakt", 1)}}}}
		hgroup := dgroup
		hgroup.GroupID.GSeq = 2
		hgroup.GroupSpec.Name = "h"
		hgroup.GroupSpec.Resources = append([]dtypes.Resource(nil), dgroup.GroupSpec.Resources...)
		lease := func(i int, gseq uint32) mtypes.LeaseID {
			return mtypes.LeaseID{Owner: did.Owner, DSeq: did.DSeq, GSeq: gseq, OSeq: uint32(i + 1), Provider: provider.String()}
		}

		bus := pubsub.NewBus()
		defer bus.Close()
		sub, err := bus.Subscribe()
		if err != nil {
			t.Fatalf("subscribe: %v", err)
		}
		q := &c20Query{QueryClient: &clientmocks.QueryClient{}, calls: make(chan chan c20FetchResult, 16)}
		cm := &clientmocks.Client{}
		cm.On("Query").Return(q)
		sess := session.New(log.NewNopLogger(), cm, &ptypes.Provider{Owner: provider.String()})
		hostnames := &c20Hostnames{SimpleHostnames: &cluster.SimpleHostnames{Hostnames: map[string]dtypes.DeploymentID{"taken.example.com": {Owner: "someone-else", DSeq: 1}}}, entered: make(chan struct{}, 1)}
		svc := &service{session: sess, bus: bus, lc: lifecycle.New(), managerch: make(chan *manager, 4), hostnameService: hostnames,
			config: ServiceConfig{HTTPServicesRequireAtLeastOneHost: rapid.IntRange(0, 3).Draw(t, "requireHost") == 0}}
		m := newManager(svc, did)

		var sched []string
		note := func(f string, a ...interface{}) { sched = append(sched, fmt.Sprintf(f, a...)) }
		fail := func(key, f string, a ...interface{}) {
			t.Fatalf("%s VIOLATION key=%s: %s\n-- schedule: %v", prop, key, fmt.Sprintf(f, a...), sched)
		}
		stopped := false
		// barrier: the manager loop takes one message at a time, so when it accepts this no-op
		// message every earlier message has been processed completely
		barrier := func(what string) {
			if stopped {
				return
			}
			done := make(chan struct{})
			go func() { m.removeLease(mtypes.LeaseID{Owner: "nobody", DSeq: 424242}); close(done) }()
			select {
			case <-done:
			case <-time.After(c20Wait):
				fail("c20-manager-blocked", "after %s the manager loop did not accept the next message within %v (blocked, e.g. on a second reply to the same submission)", what, c20Wait)
			}
		}

		// ---- model
		var leases []mtypes.LeaseID
		dataState := "none" // none | fetching | have
		var pendingFetch chan c20FetchResult
		chainVersion := []byte(nil) // version in the fetched chain data
		var updates [][]byte
		var updVar []int // manifest variant whose hash each update carried (variants may recur: a roll-back)
		maxVar := 0
		var subs []*c20Sub
		var lastValidated *c20Sub // latest submission that passed validation (whatever the reply was)
		interesting := false
		gateInteresting := false
		nextSub := 0
		sentinelN := 0

		expectedVersion := func() []byte {
			if len(updates) > 0 {
				return updates[len(updates)-1]
			}
			return chainVersion
		}
		outstanding := func() int {
			n := 0
			for _, s := range subs {
				if !s.replied {
					n++
				}
			}
			return n
		}
		// collectReplies reads what arrived; mustAll: every submission has to be answered by now
		collectReplies := func(what string, mustAll bool) {
			for _, s := range subs {
				if s.replied {
					// a second reply would sit in the buffered channel
					select {
					case e := <-s.ch:
						fail("c20-double-reply", "submission #%d (%s) received a second reply (%v) after %s", s.id, s.kind, e, what)
					default:
					}
					continue
				}
				var e error
				got := false
				if mustAll {
					select {
					case e = <-s.ch:
						got = true
					case <-time.After(c20Wait):
						fail("c20-no-reply", "submission #%d (%s) has no reply %v after %s although nothing is outstanding any more (leases=%d data=%s)", s.id, s.kind, c20Wait, what, len(leases), dataState)
					}
				} else {
					select {
					case e = <-s.ch:
						got = true
					default:
					}
				}
				if !got {
					continue
				}
				s.replied = true
				if dataState == "have" && !stopped && (len(updates) > 0 || string(s.hash) != string(expectedVersion())) {
					gateInteresting = true
				}
				accept := len(leases) > 0 && dataState == "have" && !stopped && s.valid && string(s.hash) == string(expectedVersion())
				if e == nil && !accept {
					fail("c20-accepted-wrongly", "submission #%d (%s) was ACCEPTED after %s although leases=%d data=%s valid=%v hash-matches-version=%v stopped=%v", s.id, s.kind, what, len(leases), dataState, s.valid, string(s.hash) == string(expectedVersion()), stopped)
				}
				if e != nil && accept {
					fail("c20-rejected-wrongly", "submission #%d (%s) was REJECTED (%v) after %s although a lease is held, chain data is fetched, the hash equals the expected version and the manifest is valid", s.id, s.kind, e, what)
				}
				// validation happens when the request is processed with chain data present, independent of leases
				if dataState == "have" && !stopped && s.valid && string(s.hash) == string(expectedVersion()) {
					lastValidated = s
				}
			}
		}
		// announcements: drain the bus up to a sentinel
		checkAnnouncements := func(what string) {
			sentinelN++
			if err := bus.Publish(c20Sentinel{sentinelN}); err != nil {
				return
			}
			for {
				select {
				case ev := <-sub.Events():
					switch x := ev.(type) {
					case c20Sentinel:
						if x.n == sentinelN {
							return
						}
					case event.ManifestReceived:
						held := false
						for _, l := range leases {
							if l.Equals(x.LeaseID) {
								held = true
							}
						}
						if !held {
							fail("c20-announce-without-lease", "after %s a manifest was announced for lease %v which is not held", what, x.LeaseID)
						}
						if x.Deployment == nil || dataState != "have" {
							fail("c20-announce-without-data", "after %s a manifest was announced without fetched chain data", what)
						}
						if lastValidated == nil {
							fail("c20-announce-unvalidated", "after %s a manifest was announced although no submission has passed validation", what)
						}
						h, _ := sdl.ManifestVersion(*x.Manifest)
						if string(h) != string(lastValidated.hash) {
							fail("c20-announce-stale", "after %s the announced manifest (%x) is not the latest validated one (%x)", what, h[:4], lastValidated.hash[:4])
						}
					}
				case <-time.After(c20Wait):
					fail("c20-bus-stuck", "event bus did not deliver within %v", c20Wait)
				}
			}
		}
		takeFetch := func(d time.Duration) {
			if pendingFetch != nil {
				return
			}
			select {
			case ch := <-q.calls:
				pendingFetch = ch
				dataState = "fetching"
			case <-time.After(d):
			}
		}
		v0 := func() []byte { h, _ := sdl.ManifestVersion(c20Manifest(0, "", 2, false)); return h }()

		steps := rapid.IntRange(2, 13).Draw(t, "steps")
		for i := 0; i < steps && !stopped; i++ {
			if dataState == "none" {
				takeFetch(0) // a fetch may have been started by an earlier step
			}
			act := rapid.IntRange(0, 14).Draw(t, "action")
			if i == 0 && rapid.IntRange(0, 3).Draw(t, "startWithLease") > 0 {
				act = 0
			}
			if i == 1 && len(leases) > 0 && pendingFetch != nil && rapid.IntRange(0, 2).Draw(t, "submitWhileFetching") > 0 {
				act = 2
			}
			if i >= 1 && pendingFetch != nil && len(updates) == 0 && rapid.IntRange(0, 3).Draw(t, "updateWhileFetching") == 0 {
				act = 8
			}
			// keep the "accepted manifest follows the recorded version" dialogue going: when nothing
			// is outstanding, often submit the manifest of the currently recorded version, or record
			// another version (possibly an earlier one again)
			forceLatest := false
			if len(leases) > 0 && dataState == "have" && pendingFetch == nil && outstanding() == 0 && rapid.IntRange(0, 2).Draw(t, "dialogue") == 0 {
				if lastValidated == nil || string(lastValidated.hash) != string(expectedVersion()) {
					act, forceLatest = 2, true
				} else {
					act = 8
				}
			}
			switch act {
			case 0, 1: // lease won
				if len(leases) >= 2 {
					continue
				}
				// the provider may hold leases for one or both groups of the deployment
				gseq := uint32(rapid.IntRange(1, 2).Draw(t, "leaseGroup"))
				l := lease(len(leases)+i*3, gseq)
				note("lease-won(gseq=%d,oseq=%d)", l.GSeq, l.OSeq)
				g := dgroup
				if gseq == 2 {
					g = hgroup
				}
				m.handleLease(event.LeaseWon{LeaseID: l, Group: &g, Price: sdk.NewInt64Coin("uakt", 1)})
				leases = append(leases, l)
				barrier("lease won")
				if dataState == "none" {
					takeFetch(50 * time.Millisecond)
				}
				collectReplies("lease won", false)
				checkAnnouncements("lease won")
			case 2, 3, 4, 5: // submit
				kind := rapid.SampledFrom([]string{"valid", "valid", "valid", "wrong-version", "count-mismatch", "count-mismatch", "no-services", "valid-updated", "valid-updated"}).Draw(t, "kind")
				if forceLatest {
					kind = "valid"
					if len(updVar) > 0 && updVar[len(updVar)-1] != 0 {
						kind = "valid-updated"
					}
				}
				var mf manifest.Manifest
				valid := true
				switch kind {
				case "valid":
					mf = c20Manifest(0, "", 2, false)
				case "valid-updated":
					// the manifest of one of the updates seen so far, mostly the latest one
					// (update #n on chain carries the hash of variant n)
					v := 1
					if len(updVar) > 0 {
						v = updVar[len(updVar)-1]
						if !forceLatest && len(updVar) > 1 && rapid.IntRange(0, 2).Draw(t, "olderUpdate") == 0 {
							v = updVar[rapid.IntRange(0, len(updVar)-2).Draw(t, "whichUpdate")]
						}
					}
					mf = c20Manifest(v, "", 2, false)
				case "wrong-version":
					mf = c20Manifest(7+nextSub, "", 2, false)
				case "count-mismatch":
					if rapid.Bool().Draw(t, "mismatchInOtherGroup") {
						mf, valid = c20Manifest2(0, "", 2, 3, false), false
					} else {
						mf, valid = c20Manifest(0, "", 3, false), false
					}
				case "no-services":
					mf, valid = c20Manifest(0, "", 2, true), false
				case "hostname-clash":
					mf, valid = c20Manifest(0, "taken.example.com", 2, false), false
				}
				if svc.config.HTTPServicesRequireAtLeastOneHost && valid {
					// every ingress service needs a host: give it a free one (changes the hash consistently below)
					c20SetHosts(mf)
				}
				h, _ := sdl.ManifestVersion(mf)
				s := &c20Sub{id: nextSub, ch: make(chan error, 1), kind: kind, hash: h, valid: valid, m: mf}
				nextSub++
				subs = append(subs, s)
				note("submit#%d(%s)", s.id, kind)
				m.handleManifest(c20Request(did, mf, s.ch))
				barrier("submit")
				if dataState == "none" {
					takeFetch(50 * time.Millisecond)
				}
				// while a chain fetch is outstanding a reply may legitimately wait for it
				collectReplies("submit", pendingFetch == nil)
				checkAnnouncements("submit")
			case 6, 7: // chain fetch completes
				if pendingFetch == nil {
					continue
				}
				ok := rapid.IntRange(0, 4).Draw(t, "fetchOK") > 0
				if outstanding() > 0 {
					interesting = true
				}
				ch := pendingFetch
				pendingFetch = nil
				if ok {
					// the chain holds the version of the base manifest, or of the updated one if an update was seen
					cv := v0
					if svc.config.HTTPServicesRequireAtLeastOneHost {
						mm := c20Manifest(0, "", 2, false)
						c20SetHosts(mm)
						cv, _ = sdl.ManifestVersion(mm)
					}
					// sometimes the tenant recorded the hash of a manifest that does NOT fit the groups / clashes on a hostname:
					// then the version matches but validation must still reject it
					// (hostname availability is deliberately not part of the oracle: C10/C20 do not speak about
					// hostnames, and the manager checks them only for groups it already holds a lease for)
					if rapid.IntRange(0, 2).Draw(t, "chainVersionOf") == 0 {
						cv, _ = sdl.ManifestVersion(c20Manifest(0, "", 3, false))
					}
					chainVersion = cv
					note("fetch(ok)")
					ch <- c20FetchResult{res: &dtypes.QueryDeploymentResponse{Deployment: dtypes.Deployment{DeploymentID: did, State: dtypes.DeploymentActive, Version: cv}, Groups: []dtypes.Group{dgroup, hgroup}}}
					dataState = "have"
				} else {
					note("fetch(error)")
					ch <- c20FetchResult{err: errors.New("verif: chain unavailable")}
					dataState = "none"
				}
				// the result is consumed asynchronously; every outstanding submission is due now
				collectReplies("fetch completion", true)
				// the loop picks at random among ready channels; a few rounds make it (very) likely that the result was taken
				for k := 0; k < 6; k++ {
					barrier("fetch completion")
				}
				collectReplies("fetch completion", false)
				checkAnnouncements("fetch completion")
			case 8, 12, 13: // version updated on chain
				// an update records the hash of a new manifest variant, or rolls the deployment back
				// to a variant recorded before (variant 0 is the one the deployment was created with)
				uv := maxVar + 1
				if maxVar > 0 && rapid.IntRange(0, 2).Draw(t, "rollBack") == 0 {
					uv = rapid.IntRange(0, maxVar).Draw(t, "rollBackTo")
				}
				if uv > maxVar {
					maxVar = uv
				}
				mm := c20Manifest(uv, "", 2, false)
				if svc.config.HTTPServicesRequireAtLeastOneHost {
					c20SetHosts(mm)
				}
				nv, _ := sdl.ManifestVersion(mm)
				note("version-updated(variant %d)", uv)
				m.handleUpdate(nv)
				updates = append(updates, nv)
				updVar = append(updVar, uv)
				barrier("version update")
				collectReplies("version update", false)
			case 9: // lease removed
				if len(leases) == 0 {
					continue
				}
				if outstanding() > 0 {
					interesting = true
				}
				idx := rapid.IntRange(0, len(leases)-1).Draw(t, "which")
				note("lease-removed(oseq=%d)", leases[idx].OSeq)
				m.removeLease(leases[idx])
				leases = append(leases[:idx], leases[idx+1:]...)
				barrier("lease removed")
				collectReplies("lease removed", false)
				checkAnnouncements("lease removed")
			case 14: // two version updates arrive while the manager is busy checking hostnames for an accepted manifest
				if len(leases) == 0 || dataState != "have" || pendingFetch != nil || outstanding() > 0 {
					continue
				}
				cur := 0
				if len(updVar) > 0 {
					cur = updVar[len(updVar)-1]
				}
				mf := c20Manifest(cur, "", 2, false)
				if svc.config.HTTPServicesRequireAtLeastOneHost {
					c20SetHosts(mf)
				}
				h, _ := sdl.ManifestVersion(mf)
				if string(h) != string(expectedVersion()) {
					continue // the recorded version is that of a manifest which does not fit the groups
				}
				gate := make(chan struct{})
				hostnames.mu.Lock()
				hostnames.gate = gate
				hostnames.mu.Unlock()
				open := func() {
					hostnames.mu.Lock()
					hostnames.gate = nil
					hostnames.mu.Unlock()
					close(gate)
				}
				bs := &c20Sub{id: nextSub, ch: make(chan error, 1), kind: "valid-while-updates-arrive", hash: h, valid: true, m: mf}
				nextSub++
				subs = append(subs, bs)
				note("submit#%d(valid; hostname check held)", bs.id)
				m.handleManifest(c20Request(did, mf, bs.ch))
				select {
				case <-hostnames.entered:
				case <-time.After(c20Wait):
					open()
					fail("c20-manager-blocked", "a valid, matching submission did not reach the hostname check within %v", c20Wait)
				}
				var nvs [][]byte
				for k := 1; k <= 2; k++ {
					mm := c20Manifest(maxVar+k, "", 2, false)
					if svc.config.HTTPServicesRequireAtLeastOneHost {
						c20SetHosts(mm)
					}
					nv, _ := sdl.ManifestVersion(mm)
					nvs = append(nvs, nv)
				}
				delivered := make(chan struct{})
				go func() { // like the service loop: one update after the other
					m.handleUpdate(nvs[0])
					m.handleUpdate(nvs[1])
					close(delivered)
				}()
				note("version-updated(variants %d,%d) while busy", maxVar+1, maxVar+2)
				select {
				case <-delivered: // accepted without the manager looking (a buffered hand-off)
				case <-time.After(30 * time.Millisecond):
				}
				open()
				select {
				case <-delivered:
				case <-time.After(c20Wait):
					fail("c20-manager-blocked", "two version updates handed over while the manager was busy were not taken within %v after it became free", c20Wait)
				}
				// the held submission was validated before the updates: it is accepted
				select {
				case e := <-bs.ch:
					bs.replied = true
					if e != nil {
						fail("c20-rejected-wrongly", "submission #%d (valid, hash equal to the version expected when it was validated) was REJECTED: %v", bs.id, e)
					}
					lastValidated = bs
				case <-time.After(c20Wait):
					fail("c20-no-reply", "submission #%d got no reply %v after the hostname check was released", bs.id, c20Wait)
				}
				updates = append(updates, nvs...)
				updVar = append(updVar, maxVar+1, maxVar+2)
				maxVar += 2
				interesting = true
				gateInteresting = true
				barrier("updates while busy")
				collectReplies("updates while busy", false)
				checkAnnouncements("updates while busy")
			default: // deployment closed / shutdown
				if outstanding() > 0 {
					interesting = true
				}
				if rapid.Bool().Draw(t, "viaShutdown") {
					note("shutdown")
					svc.lc.ShutdownInitiated(nil)
				} else {
					note("deployment-closed")
					m.stop()
				}
				stopped = true
			}
		}
		// ---- end: stop the manager, complete a pending fetch, everything must be answered exactly once
		if !stopped {
			if outstanding() > 0 {
				interesting = true
			}
			note("final-stop")
			m.stop()
			stopped = true
		}
		select {
		case ch := <-q.calls:
			pendingFetch = ch
		case <-time.After(5 * time.Millisecond):
		}
		// replies are due as soon as the manager stops, even while the fetch is still in flight
		collectReplies("stop", true)
		if pendingFetch != nil {
			pendingFetch <- c20FetchResult{err: errors.New("verif: cancelled")}
		}
		select {
		case <-m.lc.Done():
		case <-time.After(c20Wait):
			fail("c20-manager-never-stops", "the manager did not terminate within %v after stop", c20Wait)
		}
		collectReplies("termination", false)
		// a submission that arrives while / after stopping is answered as well
		late := &c20Sub{id: nextSub, ch: make(chan error, 1), kind: "late", valid: true}
		lateDone := make(chan struct{})
		go func() {
			m.handleManifest(c20Request(did, c20Manifest(0, "", 2, false), late.ch))
			close(lateDone)
		}()
		select {
		case <-lateDone:
		case <-time.After(c20Wait):
			fail("c20-late-submit-hangs", "a submission handed to a stopped manager blocks")
		}
		select {
		case e := <-late.ch:
			if e == nil {
				fail("c20-accepted-wrongly", "a submission to a stopped manager was accepted")
			}
		case <-time.After(c20Wait):
			fail("c20-no-reply", "a submission handed to a stopped manager never got a reply")
		}
		if prop == "C10" {
			vsCase("C10gate|"+strings.Join(sched, ";"), gateInteresting)
		} else {
			vsCase("C20|"+strings.Join(sched, ";"), interesting)
		}
	}
}
