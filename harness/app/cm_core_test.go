package app

// Chain machine (DESIGN.md section 2): a rapid state machine that drives the real
// AkashApp through signed transactions (ante handler, routing, bank, escrow hooks as
// wired in app_configure.go) and hands (pre-snapshot, msg, signer, response,
// post-snapshot) to the oracle of the property under test.

import (
	"bytes"
	"encoding/json"
	"fmt"
	"sort"
	"strings"

	"github.com/gogo/protobuf/proto"
	"time"

	"github.com/cosmos/cosmos-sdk/client"
	"github.com/cosmos/cosmos-sdk/crypto/keys/secp256k1"
	cryptotypes "github.com/cosmos/cosmos-sdk/crypto/types"
	"github.com/cosmos/cosmos-sdk/simapp"
	sdk "github.com/cosmos/cosmos-sdk/types"
	"github.com/cosmos/cosmos-sdk/types/tx/signing"
	authsign "github.com/cosmos/cosmos-sdk/x/auth/signing"
	authtypes "github.com/cosmos/cosmos-sdk/x/auth/types"
	banktypes "github.com/cosmos/cosmos-sdk/x/bank/types"
	abci "github.com/tendermint/tendermint/abci/types"
	"github.com/tendermint/tendermint/libs/log"
	tmproto "github.com/tendermint/tendermint/proto/tendermint/types"
	dbm "github.com/tendermint/tm-db"
	"pgregory.net/rapid"

	atypes "github.com/ovrclk/akash/x/audit/types"
	ctypes "github.com/ovrclk/akash/x/cert/types"
	dtypes "github.com/ovrclk/akash/x/deployment/types"
	etypes "github.com/ovrclk/akash/x/escrow/types"
	mtypes "github.com/ovrclk/akash/x/market/types"
	ptypes "github.com/ovrclk/akash/x/provider/types"
)

const (
	cmChainID = "verif-chain"
	cmDenom   = "uakt"
	cmDenom2  = "stake" // a second denomination every actor holds; escrow accounts are never denominated in it
)

var cmStores = []string{"escrow", "deployment", "market", "provider", "audit", "cert"}

type cmActor struct {
	name   string
	role   string // tenant | provider | auditor | outsider
	priv   cryptotypes.PrivKey
	addr   sdk.AccAddress
	bech   string
	accNum uint64
	seq    uint64
}

type cmKV struct{ k, v []byte }

// cmSnap is a full dump of the six akash stores (raw and decoded), plus bank balances.
type cmSnap struct {
	height      int64
	raw         map[string][]cmKV
	accounts    []etypes.Account
	payments    []etypes.Payment
	deployments []dtypes.Deployment
	groups      []dtypes.Group
	orders      []mtypes.Order
	bids        []mtypes.Bid
	leases      []mtypes.Lease
	providers   []ptypes.Provider
	audits      []atypes.Provider
	certs       []cmCert
	bank        map[string]sdk.Int // bech32 -> uakt
	escrowBank  sdk.Int
	bank2       map[string]sdk.Int // bech32 -> cmDenom2
	escrowBank2 sdk.Int
	undecodable []string
}

type cmCert struct {
	key  []byte
	cert ctypes.Certificate
}

type cmTx struct {
	msg    sdk.Msg
	signer *cmActor
	label  string
	resp   abci.ResponseDeliverTx
	pre    *cmSnap
	post   *cmSnap
	height int64
	ok     bool
	twin   bool // deliberately signed by the wrong account
}

type cmOracle interface {
	// beforeTx runs after the pre-snapshot was taken and before the tx is delivered.
	beforeTx(m *chainMachine, msg sdk.Msg, signer *cmActor)
	// afterTx runs after every delivered transaction (accepted or rejected).
	afterTx(m *chainMachine, tx *cmTx)
	// afterAdvance runs after blocks were committed without transactions of ours.
	afterAdvance(m *chainMachine, pre, post *cmSnap)
	// nontrivial decides the property's non-triviality rule at the end of the history.
	nontrivial(m *chainMachine) bool
}

type cmParams struct {
	depMin int64
	bidMin int64
}

type chainMachine struct {
	t       cmFataler
	app     *AkashApp
	txcfg   client.TxConfig
	actors  []*cmActor
	byAddr  map[string]*cmActor
	height  int64
	header  tmproto.Header
	snap    *cmSnap
	ops     []string
	labels  map[string]bool
	oracle  cmOracle
	params  cmParams
	prop    string
	txCount int
	okCount int
	msgStat map[string][2]int
	// history facts fed from observed responses
	payCreated map[string]int64 // payment key -> height of creation
	payClosed  map[string]int64 // payment key -> height at which it stopped being open
	leaseEnded map[string]int64 // payment key of a lease -> height at which the lease stopped being active
	deposits   map[string]sdk.Int
	twin       *AkashApp // optional second instance (C07)
	svcRoute   bool      // the next transaction addresses the protobuf Msg service instead of the legacy router
}

// cmServiceMsg wraps a request the way a client addressing the module's protobuf Msg service
// does: type URL "/<package>.Msg/<Method>", where the request type is "<package>.Msg<Method>".
func cmServiceMsg(msg sdk.Msg) sdk.Msg {
	name := proto.MessageName(msg)
	i := strings.LastIndex(name, ".")
	if i < 0 || !strings.HasPrefix(name[i+1:], "Msg") {
		return msg
	}
	req, ok := msg.(sdk.MsgRequest)
	if !ok {
		return msg
	}
	return sdk.ServiceMsg{MethodName: "/" + name[:i] + ".Msg/" + strings.TrimPrefix(name[i+1:], "Msg"), Request: req}
}

// Two accounts play both roles (tenant1 also runs a provider, prov0 also deploys), so that
// leases between accounts that are each other's tenant and provider are reachable.
func (m *chainMachine) tenants() []*cmActor {
	return []*cmActor{m.actors[0], m.actors[1], m.actors[3]}
}
func (m *chainMachine) providers() []*cmActor {
	return []*cmActor{m.actors[3], m.actors[4], m.actors[1]}
}
func (m *chainMachine) auditors() []*cmActor { return m.actors[6:8] }
func (m *chainMachine) outsider() *cmActor   { return m.actors[8] }

func (m *chainMachine) label(l string) { m.labels[l] = true }
func (m *chainMachine) logop(f string, a ...interface{}) {
	m.ops = append(m.ops, fmt.Sprintf(f, a...))
}

func (m *chainMachine) fatalf(key, f string, a ...interface{}) {
	msg := fmt.Sprintf(f, a...)
	if vsKnown(key) {
		panic(cmKnownFinding{key})
	}
	m.t.Fatalf("%s VIOLATION key=%s: %s\n-- history (%d ops, height %d):\n  %s", m.prop, key, msg, len(m.ops), m.height, strings.Join(m.ops, "\n  "))
}

type cmKnownFinding struct{ key string }

func cmNewActors() []*cmActor {
	var as []*cmActor
	mk := func(name, role string) {
		priv := secp256k1.GenPrivKeyFromSecret([]byte("verif-actor-" + name))
		addr := sdk.AccAddress(priv.PubKey().Address())
		as = append(as, &cmActor{name: name, role: role, priv: priv, addr: addr, bech: addr.String()})
	}
	for i := 0; i < 3; i++ {
		mk(fmt.Sprintf("tenant%d", i), "tenant")
	}
	for i := 0; i < 3; i++ {
		mk(fmt.Sprintf("prov%d", i), "provider")
	}
	for i := 0; i < 2; i++ {
		mk(fmt.Sprintf("aud%d", i), "auditor")
	}
	mk("outsider", "outsider")
	return as
}

func cmNewApp(actors []*cmActor, p cmParams) *AkashApp {
	db := dbm.NewMemDB()
	app := NewApp(log.NewNopLogger(), db, nil, true, 0, map[int64]bool{}, DefaultHome, simapp.EmptyAppOptions{})
	cdc := app.AppCodec()
	gs := NewDefaultGenesisState()

	var authGen authtypes.GenesisState
	cdc.MustUnmarshalJSON(gs[authtypes.ModuleName], &authGen)
	var accs []authtypes.GenesisAccount
	var balances []banktypes.Balance
	total := sdk.NewCoins()
	for i, a := range actors {
		accs = append(accs, authtypes.NewBaseAccount(a.addr, a.priv.PubKey(), uint64(i), 0))
		c := sdk.NewCoins(sdk.NewInt64Coin(cmDenom, 1_000_000_000_000), sdk.NewInt64Coin(cmDenom2, 1_000_000_000_000))
		balances = append(balances, banktypes.Balance{Address: a.bech, Coins: c})
		total = total.Add(c...)
	}
	packed, err := authtypes.PackAccounts(accs)
	if err != nil {
		panic(err)
	}
	authGen.Accounts = packed
	gs[authtypes.ModuleName] = cdc.MustMarshalJSON(&authGen)

	var bankGen banktypes.GenesisState
	cdc.MustUnmarshalJSON(gs[banktypes.ModuleName], &bankGen)
	bankGen.Balances = balances
	bankGen.Supply = total
	gs[banktypes.ModuleName] = cdc.MustMarshalJSON(&bankGen)

	var dGen dtypes.GenesisState
	cdc.MustUnmarshalJSON(gs[dtypes.ModuleName], &dGen)
	dGen.Params.DeploymentMinDeposit = sdk.NewInt64Coin(cmDenom, p.depMin)
	gs[dtypes.ModuleName] = cdc.MustMarshalJSON(&dGen)

	var mGen mtypes.GenesisState
	cdc.MustUnmarshalJSON(gs[mtypes.ModuleName], &mGen)
	mGen.Params.BidMinDeposit = sdk.NewInt64Coin(cmDenom, p.bidMin)
	gs[mtypes.ModuleName] = cdc.MustMarshalJSON(&mGen)

	stateBytes, err := json.Marshal(gs)
	if err != nil {
		panic(err)
	}
	app.InitChain(abci.RequestInitChain{ChainId: cmChainID, Validators: []abci.ValidatorUpdate{}, AppStateBytes: stateBytes})
	return app
}

// cmFataler is what the machine needs from *rapid.T / *testing.T.
type cmFataler interface {
	Fatalf(format string, args ...interface{})
}

func newChainMachine(t *rapid.T, prop string, oracle cmOracle, withTwin bool) *chainMachine {
	var p cmParams
	if rapid.IntRange(0, 3).Draw(t, "defaultParams") == 0 {
		p = cmParams{depMin: 5_000_000, bidMin: 50_000_000}
	} else {
		p = cmParams{depMin: int64(rapid.IntRange(10, 200).Draw(t, "depMin")), bidMin: int64(rapid.IntRange(10, 200).Draw(t, "bidMin"))}
	}
	return newChainMachineWith(t, prop, oracle, withTwin, p)
}

// newChainMachineWith builds the machine with explicit parameters (used by the scripted replay tier).
func newChainMachineWith(t cmFataler, prop string, oracle cmOracle, withTwin bool, p cmParams) *chainMachine {
	m := &chainMachine{t: t, prop: prop, oracle: oracle, labels: map[string]bool{}, byAddr: map[string]*cmActor{},
		msgStat: map[string][2]int{}, payCreated: map[string]int64{}, payClosed: map[string]int64{}, deposits: map[string]sdk.Int{}}
	m.actors = cmNewActors()
	for _, a := range m.actors {
		m.byAddr[a.bech] = a
		m.byAddr[strings.ToUpper(a.bech)] = a // bech32 also admits the all-upper-case spelling of the same account
	}
	m.params = p
	m.app = cmNewApp(m.actors, m.params)
	if withTwin {
		m.twin = cmNewApp(m.actors, m.params)
	}
	m.txcfg = MakeEncodingConfig().TxConfig
	m.logop("params(depMin=%d,bidMin=%d)", m.params.depMin, m.params.bidMin)
	m.beginBlock(1)
	ctx := m.ctx()
	for _, a := range m.actors {
		acc := m.app.keeper.acct.GetAccount(ctx, a.addr)
		if acc == nil {
			panic("actor account missing after InitChain: " + a.name)
		}
		a.accNum = acc.GetAccountNumber()
		a.seq = acc.GetSequence()
	}
	m.snap = m.snapshot()
	return m
}

func (m *chainMachine) beginBlock(h int64) {
	m.height = h
	m.header = tmproto.Header{ChainID: cmChainID, Height: h, Time: time.Unix(1_600_000_000+h*6, 0).UTC()}
	m.app.BeginBlock(abci.RequestBeginBlock{Header: m.header})
	if m.twin != nil {
		m.twin.BeginBlock(abci.RequestBeginBlock{Header: m.header})
	}
}

func (m *chainMachine) endBlock() {
	m.app.EndBlock(abci.RequestEndBlock{Height: m.height})
	r1 := m.app.Commit()
	if m.twin != nil {
		m.twin.EndBlock(abci.RequestEndBlock{Height: m.height})
		r2 := m.twin.Commit()
		if !bytes.Equal(r1.Data, r2.Data) {
			m.fatalf("twin-apphash", "two AkashApp instances fed the identical block stream committed different app hashes at height %d: %X vs %X", m.height, r1.Data, r2.Data)
		}
	}
}

// ctx reads the uncommitted deliver state of the block in progress.
func (m *chainMachine) ctx() sdk.Context {
	return m.app.BaseApp.NewContext(false, m.header)
}

// advance closes the current block and runs n-1 empty blocks, leaving block height+n open.
func (m *chainMachine) advance(n int64) {
	pre := m.snap
	for i := int64(0); i < n; i++ {
		m.endBlock()
		m.beginBlock(m.height + 1)
	}
	m.snap = m.snapshot()
	m.logop("advance(%d)->h%d", n, m.height)
	m.oracle.afterAdvance(m, pre, m.snap)
}

func (m *chainMachine) signTx(msg sdk.Msg, signer *cmActor, more ...sdk.Msg) []byte {
	b := m.txcfg.NewTxBuilder()
	msgs := append([]sdk.Msg{msg}, more...)
	if m.svcRoute {
		for i := range msgs {
			msgs[i] = cmServiceMsg(msgs[i])
		}
	}
	if err := b.SetMsgs(msgs...); err != nil {
		panic(err)
	}
	b.SetGasLimit(50_000_000)
	b.SetFeeAmount(sdk.NewCoins())
	mode := m.txcfg.SignModeHandler().DefaultMode()
	sig := signing.SignatureV2{PubKey: signer.priv.PubKey(), Data: &signing.SingleSignatureData{SignMode: mode}, Sequence: signer.seq}
	if err := b.SetSignatures(sig); err != nil {
		panic(err)
	}
	sd := authsign.SignerData{ChainID: cmChainID, AccountNumber: signer.accNum, Sequence: signer.seq}
	bz, err := m.txcfg.SignModeHandler().GetSignBytes(mode, sd, b.GetTx())
	if err != nil {
		panic(err)
	}
	s, err := signer.priv.Sign(bz)
	if err != nil {
		panic(err)
	}
	sig.Data.(*signing.SingleSignatureData).Signature = s
	if err := b.SetSignatures(sig); err != nil {
		panic(err)
	}
	out, err := m.txcfg.TxEncoder()(b.GetTx())
	if err != nil {
		panic(err)
	}
	return out
}

// deliver signs msg with signer, delivers it to the application(s), snapshots, and
// calls the oracle. It returns the transaction record.
func (m *chainMachine) deliver(label string, msg sdk.Msg, signer *cmActor, more ...sdk.Msg) *cmTx {
	pre := m.snap
	m.oracle.beforeTx(m, msg, signer)
	txb := m.signTx(msg, signer, more...)
	resp := m.app.DeliverTx(abci.RequestDeliverTx{Tx: txb})
	if m.twin != nil {
		r2 := m.twin.DeliverTx(abci.RequestDeliverTx{Tx: txb})
		b1, _ := resp.Marshal()
		b2, _ := r2.Marshal()
		if !bytes.Equal(b1, b2) {
			m.fatalf("twin-response", "two AkashApp instances answered the same transaction differently:\n%s\nvs\n%s", resp.String(), r2.String())
		}
	}
	// the ante handler increments the sequence iff signature verification passed
	acc := m.app.keeper.acct.GetAccount(m.ctx(), signer.addr)
	signer.seq = acc.GetSequence()
	post := m.snapshot()
	m.snap = post
	tx := &cmTx{msg: msg, signer: signer, label: label, resp: resp, pre: pre, post: post, height: m.height, ok: resp.Code == 0}
	m.txCount++
	st := m.msgStat[cmMsgName(msg)]
	if tx.ok {
		m.okCount++
		st[0]++
	} else {
		st[1]++
	}
	m.msgStat[cmMsgName(msg)] = st
	res := "ok"
	if !tx.ok {
		res = fmt.Sprintf("ERR(%s/%d)", resp.Codespace, resp.Code)
	}
	m.logop("h%d %s by %s -> %s", m.height, label, signer.name, res)
	m.trackHistory(tx)
	m.oracle.afterTx(m, tx)
	return tx
}

func cmPayKey(p etypes.Payment) string {
	return p.AccountID.Scope + "/" + p.AccountID.XID + "/" + p.PaymentID
}
func cmAccKey(a etypes.AccountID) string { return a.Scope + "/" + a.XID }

func (m *chainMachine) trackHistory(tx *cmTx) {
	prev := map[string]etypes.Payment{}
	for _, p := range tx.pre.payments {
		prev[cmPayKey(p)] = p
	}
	for _, p := range tx.post.payments {
		k := cmPayKey(p)
		if _, ok := prev[k]; !ok {
			m.payCreated[k] = tx.height
		}
		if o, ok := prev[k]; ok && o.State == etypes.PaymentOpen && p.State != etypes.PaymentOpen {
			m.payClosed[k] = tx.height
		}
		if _, ok := prev[k]; !ok && p.State != etypes.PaymentOpen {
			m.payClosed[k] = tx.height
		}
	}
	if m.leaseEnded == nil {
		m.leaseEnded = map[string]int64{}
	}
	for _, l := range tx.post.leases {
		if l.State == mtypes.LeaseActive {
			continue
		}
		k := cmPayKey(etypes.Payment{AccountID: dtypes.EscrowAccountForDeployment(l.LeaseID.DeploymentID()), PaymentID: mtypes.EscrowPaymentForLease(l.LeaseID)})
		if _, seen := m.leaseEnded[k]; !seen {
			m.leaseEnded[k] = tx.height
		}
	}
}

func (m *chainMachine) snapshot() *cmSnap {
	ctx := m.ctx()
	cdc := m.app.appCodec
	s := &cmSnap{height: m.height, raw: map[string][]cmKV{}, bank: map[string]sdk.Int{}}
	for _, name := range cmStores {
		st := ctx.KVStore(m.app.keys[name])
		it := st.Iterator(nil, nil)
		var kvs []cmKV
		for ; it.Valid(); it.Next() {
			k := append([]byte(nil), it.Key()...)
			v := append([]byte(nil), it.Value()...)
			kvs = append(kvs, cmKV{k, v})
			bad := func(err error) {
				s.undecodable = append(s.undecodable, fmt.Sprintf("%s:%X: %v", name, k, err))
			}
			switch name {
			case "escrow":
				if len(k) > 0 && k[0] == 0x01 {
					var o etypes.Account
					if err := cdc.UnmarshalBinaryBare(v, &o); err != nil {
						bad(err)
					} else {
						s.accounts = append(s.accounts, o)
					}
				} else {
					var o etypes.Payment
					if err := cdc.UnmarshalBinaryBare(v, &o); err != nil {
						bad(err)
					} else {
						s.payments = append(s.payments, o)
					}
				}
			case "deployment":
				if len(k) > 0 && k[0] == 0x01 {
					var o dtypes.Deployment
					if err := cdc.UnmarshalBinaryBare(v, &o); err != nil {
						bad(err)
					} else {
						s.deployments = append(s.deployments, o)
					}
				} else {
					var o dtypes.Group
					if err := cdc.UnmarshalBinaryBare(v, &o); err != nil {
						bad(err)
					} else {
						s.groups = append(s.groups, o)
					}
				}
			case "market":
				switch {
				case len(k) > 0 && k[0] == 0x01:
					var o mtypes.Order
					if err := cdc.UnmarshalBinaryBare(v, &o); err != nil {
						bad(err)
					} else {
						s.orders = append(s.orders, o)
					}
				case len(k) > 0 && k[0] == 0x02:
					var o mtypes.Bid
					if err := cdc.UnmarshalBinaryBare(v, &o); err != nil {
						bad(err)
					} else {
						s.bids = append(s.bids, o)
					}
				default:
					var o mtypes.Lease
					if err := cdc.UnmarshalBinaryBare(v, &o); err != nil {
						bad(err)
					} else {
						s.leases = append(s.leases, o)
					}
				}
			case "provider":
				var o ptypes.Provider
				if err := cdc.UnmarshalBinaryBare(v, &o); err != nil {
					bad(err)
				} else {
					s.providers = append(s.providers, o)
				}
			case "audit":
				var o atypes.Provider
				if err := cdc.UnmarshalBinaryBare(v, &o); err != nil {
					bad(err)
				} else {
					s.audits = append(s.audits, o)
				}
			case "cert":
				var o ctypes.Certificate
				if err := cdc.UnmarshalBinaryBare(v, &o); err != nil {
					bad(err)
				} else {
					s.certs = append(s.certs, cmCert{key: k, cert: o})
				}
			}
		}
		it.Close()
		s.raw[name] = kvs
	}
	for _, a := range m.actors {
		s.bank[a.bech] = m.app.keeper.bank.GetBalance(ctx, a.addr, cmDenom).Amount
	}
	s.escrowBank = m.app.keeper.bank.GetBalance(ctx, m.app.keeper.acct.GetModuleAddress(etypes.ModuleName), cmDenom).Amount
	s.bank2 = map[string]sdk.Int{}
	for _, a := range m.actors {
		s.bank2[a.bech] = m.app.keeper.bank.GetBalance(ctx, a.addr, cmDenom2).Amount
	}
	s.escrowBank2 = m.app.keeper.bank.GetBalance(ctx, m.app.keeper.acct.GetModuleAddress(etypes.ModuleName), cmDenom2).Amount
	return s
}

// cmRawEqual reports whether two snapshots have byte-identical akash stores and balances.
func cmRawDiff(a, b *cmSnap) []string {
	var out []string
	for _, name := range cmStores {
		am, bm := map[string][]byte{}, map[string][]byte{}
		for _, kv := range a.raw[name] {
			am[string(kv.k)] = kv.v
		}
		for _, kv := range b.raw[name] {
			bm[string(kv.k)] = kv.v
		}
		var keys []string
		for k := range am {
			keys = append(keys, k)
		}
		for k := range bm {
			if _, ok := am[k]; !ok {
				keys = append(keys, k)
			}
		}
		sort.Strings(keys)
		for _, k := range keys {
			if !bytes.Equal(am[k], bm[k]) {
				out = append(out, fmt.Sprintf("%s:%X", name, k))
			}
		}
	}
	return out
}

func (s *cmSnap) account(id etypes.AccountID) (etypes.Account, bool) {
	for _, a := range s.accounts {
		if a.ID == id {
			return a, true
		}
	}
	return etypes.Account{}, false
}

func (s *cmSnap) payment(id etypes.AccountID, pid string) (etypes.Payment, bool) {
	for _, p := range s.payments {
		if p.AccountID == id && p.PaymentID == pid {
			return p, true
		}
	}
	return etypes.Payment{}, false
}

func (s *cmSnap) deployment(id dtypes.DeploymentID) (dtypes.Deployment, bool) {
	for _, d := range s.deployments {
		if d.DeploymentID == id {
			return d, true
		}
	}
	return dtypes.Deployment{}, false
}

// deploymentOfAccount / leaseOfPayment map an escrow record back to the marketplace record it
// was created for by comparing with the identifiers the chain derives FROM that record (not
// by parsing the identifier, which is the code under test's own reverse mapping).
func (s *cmSnap) deploymentOfAccount(id etypes.AccountID) (dtypes.Deployment, bool) {
	for _, d := range s.deployments {
		if dtypes.EscrowAccountForDeployment(d.DeploymentID) == id {
			return d, true
		}
	}
	return dtypes.Deployment{}, false
}

func (s *cmSnap) leaseOfPayment(acc etypes.AccountID, pid string) (mtypes.Lease, bool) {
	for _, l := range s.leases {
		if dtypes.EscrowAccountForDeployment(l.LeaseID.DeploymentID()) == acc && mtypes.EscrowPaymentForLease(l.LeaseID) == pid {
			return l, true
		}
	}
	return mtypes.Lease{}, false
}

func (s *cmSnap) group(id dtypes.GroupID) (dtypes.Group, bool) {
	for _, g := range s.groups {
		if g.GroupID == id {
			return g, true
		}
	}
	return dtypes.Group{}, false
}

func (s *cmSnap) order(id mtypes.OrderID) (mtypes.Order, bool) {
	for _, o := range s.orders {
		if o.OrderID == id {
			return o, true
		}
	}
	return mtypes.Order{}, false
}

func (s *cmSnap) bid(id mtypes.BidID) (mtypes.Bid, bool) {
	for _, o := range s.bids {
		if o.BidID == id {
			return o, true
		}
	}
	return mtypes.Bid{}, false
}

func (s *cmSnap) lease(id mtypes.LeaseID) (mtypes.Lease, bool) {
	for _, o := range s.leases {
		if o.LeaseID == id {
			return o, true
		}
	}
	return mtypes.Lease{}, false
}

func (s *cmSnap) provider(bech string) (ptypes.Provider, bool) {
	for _, p := range s.providers {
		if p.Owner == bech {
			return p, true
		}
	}
	return ptypes.Provider{}, false
}

func cmMsgName(msg sdk.Msg) string { return msg.Route() + "/" + msg.Type() }
