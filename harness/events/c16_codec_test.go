package events

// C16 (codec part) — every marketplace event decodes through the provider's real
// processEvent to a typed event equal to the one emitted, for all identifier and price
// values.

import (
	"fmt"
	"math/big"
	"reflect"
	"testing"

	"github.com/cosmos/cosmos-sdk/crypto/keys/secp256k1"
	sdk "github.com/cosmos/cosmos-sdk/types"
	"pgregory.net/rapid"

	"github.com/ovrclk/akash/sdkutil"
	atypes "github.com/ovrclk/akash/x/audit/types"
	dtypes "github.com/ovrclk/akash/x/deployment/types"
	mtypes "github.com/ovrclk/akash/x/market/types"
	ptypes "github.com/ovrclk/akash/x/provider/types"
)

const c16CodecRule = "typed event of one of the 17 marketplace event types with identifiers at numeric extremes (0, 1, 2^32-1, 2^63, 2^64-1) or a price amount >= 2^63 (up to 2^255)"

func c16Addr(i int) sdk.AccAddress {
	return sdk.AccAddress(secp256k1.GenPrivKeyFromSecret([]byte(fmt.Sprintf("verif-c16-%d", i))).PubKey().Address())
}

func c16Canon(ev interface{}) string {
	// compare by value, with big integers rendered as decimal text
	switch e := ev.(type) {
	case mtypes.EventBidCreated:
		return fmt.Sprintf("%T|%+v|%+v|%s%s", e, e.Context, e.ID, e.Price.Amount.String(), e.Price.Denom)
	case mtypes.EventBidClosed:
		return fmt.Sprintf("%T|%+v|%+v|%s%s", e, e.Context, e.ID, e.Price.Amount.String(), e.Price.Denom)
	case mtypes.EventLeaseCreated:
		return fmt.Sprintf("%T|%+v|%+v|%s%s", e, e.Context, e.ID, e.Price.Amount.String(), e.Price.Denom)
	case mtypes.EventLeaseClosed:
		return fmt.Sprintf("%T|%+v|%+v|%s%s", e, e.Context, e.ID, e.Price.Amount.String(), e.Price.Denom)
	}
	return fmt.Sprintf("%T|%+v", ev, ev)
}

func TestVerif_C16_Codec(t *testing.T) {
	vsInit("C16", c16CodecRule)
	defer vsFlush()
	rapid.Check(t, func(t *rapid.T) {
		u64 := rapid.SampledFrom([]uint64{0, 1, 2, 255, 256, 1<<32 - 1, 1 << 32, 1 << 63, 1<<64 - 1, 12345678901234567}).Draw(t, "dseq")
		g32 := rapid.SampledFrom([]uint32{0, 1, 2, 65535, 1<<32 - 1}).Draw(t, "gseq")
		o32 := rapid.SampledFrom([]uint32{0, 1, 3, 1<<31 - 1, 1<<32 - 1}).Draw(t, "oseq")
		owner := c16Addr(rapid.IntRange(0, 3).Draw(t, "owner"))
		prov := c16Addr(rapid.IntRange(4, 7).Draw(t, "provider"))
		var amt sdk.Int
		switch rapid.IntRange(0, 4).Draw(t, "amountKind") {
		case 0:
			amt = sdk.NewInt(int64(rapid.IntRange(0, 1000).Draw(t, "small")))
		case 1:
			amt = sdk.NewIntFromUint64(1 << 63)
		case 2:
			amt = sdk.NewIntFromUint64(1<<64 - 1)
		case 3:
			amt = sdk.NewIntFromBigInt(new(big.Int).Lsh(big.NewInt(1), uint(rapid.IntRange(64, 254).Draw(t, "bits"))))
		default:
			amt = sdk.NewIntFromBigInt(new(big.Int).Sub(new(big.Int).Lsh(big.NewInt(1), 255), big.NewInt(1)))
		}
		price := sdk.Coin{Denom: rapid.SampledFrom([]string{"uakt", "stake", "ibc/ABCDEF0123"}).Draw(t, "denom"), Amount: amt}
		ver := make([]byte, rapid.SampledFrom([]int{0, 1, 32, 33}).Draw(t, "verlen"))
		for i := range ver {
			ver[i] = byte(rapid.IntRange(0, 255).Draw(t, "verbyte"))
		}
		did := dtypes.DeploymentID{Owner: owner.String(), DSeq: u64}
		gid := dtypes.GroupID{Owner: owner.String(), DSeq: u64, GSeq: g32}
		oid := mtypes.OrderID{Owner: owner.String(), DSeq: u64, GSeq: g32, OSeq: o32}
		bid := mtypes.BidID{Owner: owner.String(), DSeq: u64, GSeq: g32, OSeq: o32, Provider: prov.String()}
		lid := mtypes.LeaseID(bid)
		events := []sdkutil.ModuleEvent{
			dtypes.NewEventDeploymentCreated(did, ver),
			dtypes.NewEventDeploymentUpdated(did, ver),
			dtypes.NewEventDeploymentClosed(did),
			dtypes.NewEventGroupClosed(gid),
			dtypes.NewEventGroupPaused(gid),
			dtypes.NewEventGroupStarted(gid),
			mtypes.NewEventOrderCreated(oid),
			mtypes.NewEventOrderClosed(oid),
			mtypes.NewEventBidCreated(bid, price),
			mtypes.NewEventBidClosed(bid, price),
			mtypes.NewEventLeaseCreated(lid, price),
			mtypes.NewEventLeaseClosed(lid, price),
			ptypes.NewEventProviderCreated(prov),
			ptypes.NewEventProviderUpdated(prov),
			ptypes.NewEventProviderDeleted(prov),
			atypes.NewEventTrustedAuditorCreated(prov, owner),
			atypes.NewEventTrustedAuditorDeleted(prov, owner),
		}
		which := rapid.IntRange(0, len(events)-1).Draw(t, "event")
		ev := events[which]
		extreme := u64 >= 1<<32-1 || u64 == 0 || g32 == 1<<32-1 || o32 == 1<<32-1 || !amt.IsInt64()
		vsCase(fmt.Sprintf("codec|%s", c16Canon(ev)), extreme, fmt.Sprintf("type:%T", ev))
		abciEv := sdk.Events{ev.ToSDKEvent()}.ToABCIEvents()[0]
		got, ok := processEvent(abciEv)
		if !ok {
			t.Fatalf("C16 VIOLATION key=c16-codec-undecodable: the provider's event parser cannot decode %T %+v", ev, ev)
		}
		if reflect.TypeOf(got) != reflect.TypeOf(ev) || c16Canon(got) != c16Canon(ev) {
			t.Fatalf("C16 VIOLATION key=c16-codec-roundtrip: emitted %s, parsed back %s", c16Canon(ev), c16Canon(got))
		}
	})
}
