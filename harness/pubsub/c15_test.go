package pubsub

// C15 — Event bus delivers every event exactly once, in order, to every subscriber.
//
// (a) TestVerif_C15_Seq: rapid state machine over a real bus against a per-subscriber
//     FIFO model; a final sentinel drain turns "nothing extra arrives" into a
//     deterministic comparison.
// (b) TestVerif_C15_Conc: generated parameters (publishers, readers, delays, clone and
//     close points) executed by real goroutines; schedule-independent relations checked.

import (
	"errors"
	"fmt"
	"runtime"
	"strings"
	"sync"
	"sync/atomic"
	"testing"
	"time"

	"pgregory.net/rapid"
)

const c15Rule = "seq: history contains a clone taken while the original has undelivered events (model pending>0) and a read after it; " +
	"conc: a clone is taken while the original has undelivered events (publishes completed since its subscription > events it has read) and at least one reader is delayed/stalled; " +
	"close race: a subscriber with at least 200 clones is closed while events are published and the bus is closed during its tear-down"

const c15Wait = 10 * time.Second

type c15Sub struct {
	s       Subscriber
	pending []int
	alive   bool
	parent  int // -1: direct subscriber of the bus
	name    string
}

type c15Sentinel struct{}

func c15ReadOne(s Subscriber, d time.Duration) (Event, bool) {
	select {
	case ev := <-s.Events():
		return ev, true
	case <-time.After(d):
		return nil, false
	}
}

func TestVerif_C15_Seq(t *testing.T) {
	vsInit("C15", c15Rule)
	defer vsFlush()
	rapid.Check(t, func(t *rapid.T) {
		b := NewBus()
		busAlive := true
		var subs []*c15Sub
		next := 0
		var ops []string
		cloneWithPending, readAfterClone, closedWithPending := false, false, false
		logop := func(f string, a ...interface{}) { ops = append(ops, fmt.Sprintf(f, a...)) }
		defer func() {
			go b.Close() // never wait here: a wedged bus is reported by the bounded waits above
			labels := []string{}
			if cloneWithPending {
				labels = append(labels, "seq:clone-with-pending")
			}
			if closedWithPending {
				labels = append(labels, "seq:close-with-pending")
			}
			vsCase("seq|"+strings.Join(ops, ";"), cloneWithPending && readAfterClone, labels...)
		}()
		aliveIdx := func() []int {
			var r []int
			for i, s := range subs {
				if s.alive {
					r = append(r, i)
				}
			}
			return r
		}
		kill := func(i int) {
			// closing a subscriber shuts its clones (its children) down as well
			var rec func(int)
			rec = func(j int) {
				subs[j].alive = false
				for k, s := range subs {
					if s.parent == j && s.alive {
						rec(k)
					}
				}
			}
			rec(i)
		}
		waitDone := func(ch <-chan struct{}, what string) {
			select {
			case <-ch:
			case <-time.After(c15Wait):
				t.Fatalf("C15: %s did not complete within %v (blocked); ops=%v", what, c15Wait, ops)
			}
		}
		closeDone := func(f func(), what string) {
			ch := make(chan struct{})
			go func() { f(); close(ch) }()
			waitDone(ch, what)
		}
		expectRead := func(i, k int) {
			s := subs[i]
			for j := 0; j < k; j++ {
				ev, ok := c15ReadOne(s.s, c15Wait)
				if !ok {
					t.Fatalf("C15: subscriber %s: event %d (the %d-th of %d pending) never delivered; ops=%v", s.name, s.pending[0], j, k, ops)
				}
				if n, isInt := ev.(int); !isInt || n != s.pending[0] {
					t.Fatalf("C15: subscriber %s: got %v, want %d (pending %v); ops=%v", s.name, ev, s.pending[0], s.pending, ops)
				}
				s.pending = s.pending[1:]
			}
		}
		t.Repeat(map[string]func(*rapid.T){
			"publish": func(t *rapid.T) {
				n := rapid.IntRange(1, 4).Draw(t, "n")
				for j := 0; j < n; j++ {
					err := b.Publish(next)
					if busAlive {
						if err != nil {
							t.Fatalf("C15: Publish on running bus returned %v", err)
						}
						for _, s := range subs {
							if s.alive {
								s.pending = append(s.pending, next)
							}
						}
					} else if !errors.Is(err, ErrNotRunning) {
						t.Fatalf("C15: Publish on closed bus returned %v", err)
					}
					next++
				}
				logop("pub%d", n)
			},
			"publishMore": func(t *rapid.T) {
				if !busAlive {
					t.Skip("closed")
				}
				for j := 0; j < 2; j++ {
					if err := b.Publish(next); err != nil {
						t.Fatalf("C15: Publish on running bus returned %v", err)
					}
					for _, s := range subs {
						if s.alive {
							s.pending = append(s.pending, next)
						}
					}
					next++
				}
				logop("pub2")
			},
			"subscribe": func(t *rapid.T) {
				if len(subs) >= 8 {
					t.Skip("enough")
				}
				s, err := b.Subscribe()
				if !busAlive {
					if !errors.Is(err, ErrNotRunning) {
						t.Fatalf("C15: Subscribe on closed bus: %v", err)
					}
					logop("sub-closed")
					return
				}
				if err != nil {
					t.Fatalf("C15: Subscribe: %v", err)
				}
				subs = append(subs, &c15Sub{s: s, alive: true, parent: -1, name: fmt.Sprintf("s%d", len(subs))})
				logop("sub")
			},
			"clone": func(t *rapid.T) {
				al := aliveIdx()
				if len(al) == 0 || len(subs) >= 8 {
					t.Skip("none")
				}
				var withPending []int
				for _, j := range al {
					if len(subs[j].pending) > 0 {
						withPending = append(withPending, j)
					}
				}
				if len(withPending) > 0 && rapid.IntRange(0, 3).Draw(t, "preferPending") > 0 {
					al = withPending
				}
				i := rapid.SampledFrom(al).Draw(t, "i")
				c, err := subs[i].s.Clone()
				if err != nil {
					t.Fatalf("C15: Clone of live subscriber: %v", err)
				}
				p := append([]int(nil), subs[i].pending...)
				if len(p) > 0 {
					cloneWithPending = true
				}
				subs = append(subs, &c15Sub{s: c, alive: true, parent: i, pending: p, name: fmt.Sprintf("s%d<-s%d", len(subs), i)})
				logop("clone(s%d,pending=%d)", i, len(p))
			},
			"read": func(t *rapid.T) {
				var cand []int
				for _, i := range aliveIdx() {
					if len(subs[i].pending) > 0 {
						cand = append(cand, i)
					}
				}
				if len(cand) == 0 {
					t.Skip("nothing pending")
				}
				i := rapid.SampledFrom(cand).Draw(t, "i")
				k := rapid.IntRange(1, len(subs[i].pending)).Draw(t, "k")
				expectRead(i, k)
				if cloneWithPending {
					readAfterClone = true
				}
				logop("read(s%d,%d)", i, k)
			},
			"closeSub": func(t *rapid.T) {
				al := aliveIdx()
				if len(al) == 0 {
					t.Skip("none")
				}
				i := rapid.SampledFrom(al).Draw(t, "i")
				if len(subs[i].pending) > 0 {
					closedWithPending = true
				}
				closeDone(subs[i].s.Close, "Close of subscriber "+subs[i].name)
				waitDone(subs[i].s.Done(), "Done of subscriber "+subs[i].name)
				kill(i)
				logop("close(s%d)", i)
			},
			"closeBus": func(t *rapid.T) {
				if !busAlive || !rapid.Bool().Draw(t, "really") {
					t.Skip("no")
				}
				closeDone(b.Close, "Close of bus")
				waitDone(b.Done(), "Done of bus")
				busAlive = false
				for _, s := range subs {
					s.alive = false
				}
				logop("closeBus")
			},
			"": func(t *rapid.T) {
				// a subscriber the model says is empty must have nothing to hand out
				for _, i := range aliveIdx() {
					if len(subs[i].pending) == 0 {
						select {
						case ev := <-subs[i].s.Events():
							t.Fatalf("C15: subscriber %s delivered unexpected %v (model: nothing pending); ops=%v", subs[i].name, ev, ops)
						default:
						}
					}
				}
			},
		})
		// final drain: a sentinel published last must arrive after exactly the pending events
		if busAlive {
			if err := b.Publish(c15Sentinel{}); err != nil {
				t.Fatalf("C15: Publish sentinel: %v", err)
			}
			for _, i := range aliveIdx() {
				s := subs[i]
				expectRead(i, len(s.pending))
				ev, ok := c15ReadOne(s.s, c15Wait)
				if !ok {
					t.Fatalf("C15: subscriber %s never got the final sentinel; ops=%v", s.name, ops)
				}
				if _, isS := ev.(c15Sentinel); !isS {
					t.Fatalf("C15: subscriber %s delivered extra/duplicate %v before the sentinel; ops=%v", s.name, ev, ops)
				}
			}
		}
	})
}

// ---------------------------------------------------------------------------------

type c15Ev struct{ p, i int }

type c15Reader struct {
	name      string
	sub       Subscriber
	got       []c15Ev
	startPubs int64 // publishes completed when the subscription was made (lower bound of its start)
	fromStart bool
	// plan
	delayEvery int // sleep every n events (0 = never)
	stallUntil bool
	cloneAt    int // take a clone after reading this many events (-1 never)
	closeAt    int // close after reading this many (-1 never)
	cloneOf    *c15Reader
	cloneK     int
	hadBacklog bool
	closed     bool
	sawEnd     bool
	err        string
}

func TestVerif_C15_Conc(t *testing.T) {
	vsInit("C15", c15Rule)
	defer vsFlush()
	rapid.Check(t, func(t *rapid.T) {
		nPub := rapid.IntRange(1, 4).Draw(t, "publishers")
		perPub := rapid.IntRange(1, 200).Draw(t, "eventsPerPublisher")
		nSub := rapid.IntRange(1, 6).Draw(t, "subscribers")
		nLate := rapid.IntRange(0, 2).Draw(t, "lateSubscribers")
		type plan struct {
			delayEvery, cloneAt, closeAt int
			stall                        bool
			cloners                      int // other goroutines that keep cloning (and dropping) this subscriber meanwhile
		}
		plans := make([]plan, nSub+nLate)
		total := nPub * perPub
		for i := range plans {
			p := plan{cloneAt: -1, closeAt: -1}
			switch rapid.IntRange(0, 3).Draw(t, fmt.Sprintf("speed%d", i)) {
			case 1:
				p.delayEvery = rapid.IntRange(1, 8).Draw(t, "delayEvery")
			case 2:
				p.stall = true
			}
			if rapid.IntRange(0, 2).Draw(t, fmt.Sprintf("clone%d", i)) > 0 {
				p.cloneAt = rapid.IntRange(0, total/2).Draw(t, "cloneAt")
				if rapid.IntRange(0, 2).Draw(t, "concurrentCloners") == 0 {
					p.cloners = rapid.IntRange(1, 2).Draw(t, "cloners")
				}
			}
			if rapid.IntRange(0, 4).Draw(t, fmt.Sprintf("close%d", i)) == 0 {
				p.closeAt = rapid.IntRange(0, total).Draw(t, "closeAt")
			}
			plans[i] = p
		}
		pubYield := rapid.IntRange(0, 3).Draw(t, "pubYield")
		closeBusWithStalled := rapid.Bool().Draw(t, "closeBusEarly")
		render := fmt.Sprintf("conc|pubs=%d per=%d subs=%d late=%d yield=%d plans=%v", nPub, perPub, nSub, nLate, pubYield, plans)

		b := NewBus()
		defer func() { go b.Close() }()
		var pubsDone int64
		var mu sync.Mutex
		var readers []*c15Reader
		var wg sync.WaitGroup
		var stallGate = make(chan struct{})

		var runReader func(r *c15Reader)
		runReader = func(r *c15Reader) {
			defer wg.Done()
			if r.stallUntil {
				<-stallGate
			}
			n := 0
			for {
				if r.cloneAt == n {
					r.cloneAt = -1
					// publishes known complete before Clone() is called are a lower bound for what the original was handed
					backlog := atomic.LoadInt64(&pubsDone)-r.startPubs > int64(n)
					c, err := r.sub.Clone()
					if errors.Is(err, ErrNotRunning) {
						// the original was shut down (bus closed) before the clone point: legal
						r.closed = true
						return
					}
					if err != nil {
						r.err = fmt.Sprintf("Clone failed: %v", err)
						return
					}
					cr := &c15Reader{name: r.name + ".clone", sub: c, cloneOf: r, cloneK: n, cloneAt: -1, closeAt: -1, hadBacklog: backlog}
					mu.Lock()
					readers = append(readers, cr)
					mu.Unlock()
					wg.Add(1)
					go runReader(cr)
				}
				if r.closeAt == n {
					r.sub.Close()
					select {
					case <-r.sub.Done():
					case <-time.After(c15Wait):
						r.err = "Close()/Done() of subscriber blocked"
					}
					r.closed = true
					return
				}
				select {
				case ev := <-r.sub.Events():
					if _, end := ev.(c15Sentinel); end {
						r.sawEnd = true
						return
					}
					r.got = append(r.got, ev.(c15Ev))
					n++
					if r.delayEvery > 0 && n%r.delayEvery == 0 {
						time.Sleep(20 * time.Microsecond)
					}
				case <-r.sub.Done():
					// shut down by an ancestor's close
					r.closed = true
					return
				case <-time.After(c15Wait):
					r.err = fmt.Sprintf("no event and no end marker for %v after %d events", c15Wait, n)
					return
				}
			}
		}
		mkReader := func(i int, fromStart bool) *c15Reader {
			s, err := b.Subscribe()
			if err != nil {
				t.Fatalf("C15: Subscribe: %v", err)
			}
			p := plans[i]
			r := &c15Reader{name: fmt.Sprintf("r%d", i), sub: s, fromStart: fromStart, startPubs: atomic.LoadInt64(&pubsDone),
				delayEvery: p.delayEvery, stallUntil: p.stall, cloneAt: p.cloneAt, closeAt: p.closeAt}
			for k := 0; k < p.cloners; k++ {
				// clones taken and dropped by other goroutines must not disturb what the reader's own clone receives
				go func() {
					for j := 0; j < 400; j++ {
						c, err := s.Clone()
						if err != nil {
							return
						}
						c.Close()
						runtime.Gosched()
					}
				}()
			}
			mu.Lock()
			readers = append(readers, r)
			mu.Unlock()
			wg.Add(1)
			go runReader(r)
			return r
		}
		for i := 0; i < nSub; i++ {
			mkReader(i, true)
		}
		var pwg sync.WaitGroup
		pubErr := make(chan string, nPub)
		for p := 0; p < nPub; p++ {
			pwg.Add(1)
			go func(p int) {
				defer pwg.Done()
				for i := 0; i < perPub; i++ {
					if err := b.Publish(c15Ev{p, i}); err != nil {
						pubErr <- fmt.Sprintf("Publish(%d,%d) on running bus: %v", p, i, err)
						return
					}
					atomic.AddInt64(&pubsDone, 1)
					if pubYield > 0 && i%pubYield == 0 {
						runtime.Gosched()
					}
				}
			}(p)
		}
		// late subscribers join while publishing is in progress
		for i := 0; i < nLate; i++ {
			runtime.Gosched()
			mkReader(nSub+i, false)
		}
		pdone := make(chan struct{})
		go func() { pwg.Wait(); close(pdone) }()
		select {
		case <-pdone:
		case <-time.After(c15Wait):
			t.Fatalf("C15: publishers blocked for %v (slow/stalled/closing subscribers must not block Publish); %s", c15Wait, render)
		}
		select {
		case e := <-pubErr:
			t.Fatalf("C15: %s; %s", e, render)
		default:
		}
		if err := b.Publish(c15Sentinel{}); err != nil {
			t.Fatalf("C15: publish end marker: %v", err)
		}
		if !closeBusWithStalled {
			close(stallGate)
		}
		rdone := make(chan struct{})
		if closeBusWithStalled {
			// closing the bus while stalled readers still hold undelivered events must not block
			cdone := make(chan struct{})
			go func() { b.Close(); close(cdone) }()
			select {
			case <-cdone:
			case <-time.After(c15Wait):
				t.Fatalf("C15: bus.Close() blocked with stalled subscribers; %s", render)
			}
			close(stallGate)
		}
		go func() { wg.Wait(); close(rdone) }()
		select {
		case <-rdone:
		case <-time.After(2 * c15Wait):
			t.Fatalf("C15: readers did not finish; %s", render)
		}

		// ---------------- oracle (schedule independent) ----------------
		mu.Lock()
		rs := append([]*c15Reader(nil), readers...)
		mu.Unlock()
		for _, r := range rs {
			if r.err != "" {
				t.Fatalf("C15: reader %s: %s; %s", r.name, r.err, render)
			}
		}
		// per reader: per-publisher subsequences are gap-free, duplicate-free, in order
		for _, r := range rs {
			last := map[int]int{}
			for _, e := range r.got {
				if prev, ok := last[e.p]; ok {
					if e.i != prev+1 {
						t.Fatalf("C15: reader %s: publisher %d event %d follows %d (gap/duplicate/reorder); %s", r.name, e.p, e.i, prev, render)
					}
				} else if r.fromStart && r.cloneOf == nil && e.i != 0 {
					t.Fatalf("C15: reader %s subscribed before publishing but first event of publisher %d is #%d; %s", r.name, e.p, e.i, render)
				}
				last[e.p] = e.i
			}
			complete := !r.closed && r.sawEnd
			if closeBusWithStalled && r.stallUntil {
				complete = false
			}
			if complete && r.cloneOf == nil {
				for p := 0; p < nPub; p++ {
					if l, ok := last[p]; !ok || l != perPub-1 {
						if r.fromStart || ok {
							t.Fatalf("C15: reader %s reached the end marker but publisher %d ended at %d/%d (lost events); %s", r.name, p, l, perPub-1, render)
						}
					}
				}
			}
		}
		// one total order: every reader's sequence is a contiguous segment of the reference sequence
		var ref []c15Ev
		for _, r := range rs {
			if r.fromStart && r.cloneOf == nil && !r.closed && r.sawEnd && len(r.got) == total {
				ref = r.got
				break
			}
		}
		if ref != nil {
			pos := map[c15Ev]int{}
			for i, e := range ref {
				pos[e] = i
			}
			for _, r := range rs {
				for i := 1; i < len(r.got); i++ {
					if pos[r.got[i]] != pos[r.got[i-1]]+1 {
						t.Fatalf("C15: reader %s disagrees with the common publication order at its position %d; %s", r.name, i, render)
					}
				}
			}
		}
		// clone: exactly the original's sequence from position k on
		nontrivial := false
		delayed := false
		for _, r := range rs {
			if r.delayEvery > 0 || r.stallUntil {
				delayed = true
			}
		}
		for _, r := range rs {
			if r.cloneOf == nil {
				continue
			}
			o := r.cloneOf
			if r.hadBacklog && delayed {
				nontrivial = true
			}
			want := o.got
			if len(want) < r.cloneK {
				continue
			}
			want = want[r.cloneK:]
			n := len(want)
			if len(r.got) < n {
				n = len(r.got)
			}
			for i := 0; i < n; i++ {
				if r.got[i] != want[i] {
					t.Fatalf("C15: clone %s (taken after %d events) got %v at position %d, original got %v there; %s", r.name, r.cloneK, r.got[i], i, want[i], render)
				}
			}
			// both complete ⇒ equal length
			if !r.closed && r.sawEnd && !o.closed && o.sawEnd && len(r.got) != len(want) {
				t.Fatalf("C15: clone %s received %d events, original had %d from position %d on; %s", r.name, len(r.got), len(want), r.cloneK, render)
			}
			// the original was closed early: the clone must still contain everything the original read later
			if len(r.got) < len(want) && !r.closed && r.sawEnd {
				t.Fatalf("C15: clone %s missed events the original received after the clone point; %s", r.name, render)
			}
		}
		labels := []string{}
		if nontrivial {
			labels = append(labels, "conc:clone-with-backlog")
		}
		if closeBusWithStalled {
			labels = append(labels, "conc:bus-closed-with-stalled")
		}
		vsCase(render, nontrivial, labels...)
	})
}
