package bidengine

// C13 — bid engine: at most one bounded bid per order, no leaked reservations or bids.
// A real `order` (newOrderInternal) over a real bus; every asynchronous step is gated by
// the harness, which owns the schedule of completions, failures and chain events.

import (
	"context"
	"errors"
	"fmt"
	"sort"
	"strings"
	"sync"
	"testing"
	"time"

	lifecycle "github.com/boz/go-lifecycle"
	"github.com/cosmos/cosmos-sdk/crypto/keys/secp256k1"
	sdk "github.com/cosmos/cosmos-sdk/types"
	"github.com/tendermint/tendermint/libs/log"
	"google.golang.org/grpc"
	"pgregory.net/rapid"

	clientmocks "github.com/ovrclk/akash/client/mocks"
	clustermocks "github.com/ovrclk/akash/provider/cluster/mocks"
	ctypes "github.com/ovrclk/akash/provider/cluster/types"
	"github.com/ovrclk/akash/provider/session"
	"github.com/ovrclk/akash/pubsub"
	atypes "github.com/ovrclk/akash/types"
	audittypes "github.com/ovrclk/akash/x/audit/types"
	dtypes "github.com/ovrclk/akash/x/deployment/types"
	mtypes "github.com/ovrclk/akash/x/market/types"
	ptypes "github.com/ovrclk/akash/x/provider/types"
)

const c13Rule = "schedule in which a terminating event (order closed, lease won/lost, bid timeout, shutdown) or a step failure is injected while at least one gated step (group fetch, bid query, auditor lookup, reservation, pricing, bid broadcast) is in flight"

const c13Wait = 20 * time.Second

type c13Call struct {
	step    string
	release chan error
	msg     sdk.Msg
}

type c13Harness struct {
	mu       sync.Mutex
	arrivals chan *c13Call
	log      []string
	pending  map[string]*c13Call
	group    dtypes.Group
	price    sdk.Coin
	bidFound string // "found" | "notfound" | "error"
	attrsOK  bool
	provider sdk.AccAddress
}

func (h *c13Harness) record(f string, a ...interface{}) {
	h.mu.Lock()
	h.log = append(h.log, fmt.Sprintf(f, a...))
	h.mu.Unlock()
}

// gate announces the call and blocks until the schedule completes it.
func (h *c13Harness) gate(step string, msg sdk.Msg) error {
	c := &c13Call{step: step, release: make(chan error, 1), msg: msg}
	h.record("call:%s", step)
	h.arrivals <- c
	err := <-c.release
	if err != nil {
		h.record("ret:%s:err", step)
	} else {
		h.record("ret:%s:ok", step)
	}
	return err
}

type c13Query struct {
	*clientmocks.QueryClient
	h *c13Harness
}

func (q *c13Query) Group(ctx context.Context, in *dtypes.QueryGroupRequest, opts ...grpc.CallOption) (*dtypes.QueryGroupResponse, error) {
	if err := q.h.gate("group", nil); err != nil {
		return nil, err
	}
	return &dtypes.QueryGroupResponse{Group: q.h.group}, nil
}

func (q *c13Query) Bid(ctx context.Context, in *mtypes.QueryBidRequest, opts ...grpc.CallOption) (*mtypes.QueryBidResponse, error) {
	if err := q.h.gate("bidquery", nil); err != nil {
		return nil, err
	}
	switch q.h.bidFound {
	case "found":
		return &mtypes.QueryBidResponse{Bid: mtypes.Bid{BidID: in.ID, State: mtypes.BidOpen, Price: q.h.price}}, nil
	case "found-closed":
		// the provider bid on this order in an earlier life and that bid was closed since
		return &mtypes.QueryBidResponse{Bid: mtypes.Bid{BidID: in.ID, State: mtypes.BidClosed, Price: q.h.price}}, nil
	case "notfound":
		return nil, errors.New("rpc error: code = NotFound desc = bid not found: invalid request")
	}
	return nil, errors.New("connection refused")
}

type c13Tx struct{ h *c13Harness }

func (t *c13Tx) Broadcast(ctx context.Context, msgs ...sdk.Msg) error {
	for _, m := range msgs {
		switch x := m.(type) {
		case *mtypes.MsgCreateBid:
			t.h.record("createbid:price=%s", x.Price)
			return t.h.gate("createbid", m)
		case *mtypes.MsgCloseBid:
			return t.h.gate("closebid", m)
		}
	}
	return t.h.gate("othertx", nil)
}

type c13Cluster struct{ h *c13Harness }

func (c *c13Cluster) Reserve(oid mtypes.OrderID, rg atypes.ResourceGroup) (ctypes.Reservation, error) {
	if err := c.h.gate("reserve", nil); err != nil {
		return nil, err
	}
	r := &clustermocks.Reservation{}
	r.On("OrderID").Return(oid)
	r.On("Resources").Return(rg)
	return r, nil
}

func (c *c13Cluster) Unreserve(oid mtypes.OrderID) error {
	return c.h.gate("unreserve", nil)
}

type c13Pass struct{ h *c13Harness }

func (p *c13Pass) GetAuditorAttributeSignatures(auditor string) ([]audittypes.Provider, error) {
	if err := p.h.gate("auditor", nil); err != nil {
		return nil, err
	}
	if !p.h.attrsOK {
		return nil, nil
	}
	return []audittypes.Provider{{Owner: p.h.provider.String(), Auditor: auditor, Attributes: p.h.group.GroupSpec.Requirements.Attributes}}, nil
}

type c13Pricing struct{ h *c13Harness }

func (p *c13Pricing) CalculatePrice(ctx context.Context, owner string, gspec *dtypes.GroupSpec) (sdk.Coin, error) {
	if err := p.h.gate("pricing", nil); err != nil {
		return sdk.Coin{}, err
	}
	return p.h.price, nil
}

func c13Addr(s string) sdk.AccAddress {
	return sdk.AccAddress(secp256k1.GenPrivKeyFromSecret([]byte(s)).PubKey().Address())
}

func TestVerif_C13(t *testing.T) {
	vsInit("C13", c13Rule)
	defer vsFlush()
	rapid.Check(t, func(t *rapid.T) {
		h := &c13Harness{arrivals: make(chan *c13Call, 64), pending: map[string]*c13Call{}, provider: c13Addr("verif-c13-provider")}
		owner := c13Addr("verif-c13-owner")
		otherProv := c13Addr("verif-c13-other-provider")
		oid := mtypes.OrderID{Owner: owner.String(), DSeq: 7, GSeq: 1, OSeq: 1}
		// group: valid resources, a price, optional auditor requirements
		unitPrice := int64(rapid.IntRange(1, 50).Draw(t, "unitPrice"))
		count := uint32(rapid.IntRange(1, 3).Draw(t, "count"))
		h.group = dtypes.Group{GroupID: oid.GroupID(), State: dtypes.GroupOpen, GroupSpec: dtypes.GroupSpec{
			Name: "g",
			Resources: []dtypes.Resource{{
				Resources: atypes.ResourceUnits{
					CPU:     &atypes.CPU{Units: atypes.NewResourceValue(100)},
					Memory:  &atypes.Memory{Quantity: atypes.NewResourceValue(16 << 20)},
					Storage: &atypes.Storage{Quantity: atypes.NewResourceValue(64 << 20)},
				},
				Count: count, Price: sdk.NewInt64Coin("uakt", unitPrice),
			}},
		}}
		provAttrs := atypes.Attributes{{Key: "region", Value: "us"}}
		if rapid.IntRange(0, 5).Draw(t, "requireAttr") == 0 {
			h.group.GroupSpec.Requirements.Attributes = atypes.Attributes{{Key: "region", Value: rapid.SampledFrom([]string{"us", "eu"}).Draw(t, "region")}}
		}
		if rapid.IntRange(0, 2).Draw(t, "auditors") == 0 {
			h.group.GroupSpec.Requirements.SignedBy.AllOf = []string{c13Addr("verif-c13-aud").String()}
			h.attrsOK = rapid.IntRange(0, 3).Draw(t, "attested") > 0
		}
		max := h.group.GroupSpec.Price().Amount.Int64()
		h.price = sdk.NewInt64Coin("uakt", rapid.SampledFrom([]int64{1, max - 1, max, max, max + 1, max * 2}).Draw(t, "price"))
		if !h.price.IsPositive() {
			h.price = sdk.NewInt64Coin("uakt", 1)
		}
		checkExisting := rapid.Bool().Draw(t, "checkForExistingBid")
		h.bidFound = rapid.SampledFrom([]string{"notfound", "notfound", "found", "found-closed", "error"}).Draw(t, "existingBid")
		timeout := time.Duration(0)
		if rapid.IntRange(0, 3).Draw(t, "bidTimeout") == 0 {
			timeout = 15 * time.Millisecond
		}

		bus := pubsub.NewBus()
		defer bus.Close()
		sub, err := bus.Subscribe()
		if err != nil {
			t.Fatalf("subscribe: %v", err)
		}
		cl := &clientmocks.Client{}
		cl.On("Query").Return(&c13Query{QueryClient: &clientmocks.QueryClient{}, h: h})
		cl.On("Tx").Return(&c13Tx{h: h})
		sess := session.New(log.NewNopLogger(), cl, &ptypes.Provider{Owner: h.provider.String(), Attributes: provAttrs})
		svc := &service{session: sess, cluster: &c13Cluster{h: h}, bus: bus, sub: sub, lc: lifecycle.New(), drainch: make(chan *order, 4)}
		cfg := Config{PricingStrategy: &c13Pricing{h: h}, Deposit: sdk.NewInt64Coin("uakt", 5), BidTimeout: timeout}
		o, err := newOrderInternal(svc, oid, cfg, &c13Pass{h: h}, checkExisting, nil)
		if err != nil {
			t.Fatalf("newOrderInternal: %v", err)
		}

		var sched []string
		note := func(f string, a ...interface{}) { sched = append(sched, fmt.Sprintf(f, a...)) }
		note("cfg(existing=%v:%s,timeout=%v,price=%s/max=%d,auditors=%d,attested=%v)", checkExisting, h.bidFound, timeout, h.price, max, len(h.group.GroupSpec.Requirements.SignedBy.AllOf), h.attrsOK)
		inFlightAtInjection := false
		exiting := func() bool {
			select {
			case <-o.lc.ShuttingDown():
				return true
			default:
				return false
			}
		}
		// absorb: collect newly arrived gated calls for a short while / until the order reacts
		absorb := func(d time.Duration) {
			timer := time.NewTimer(d)
			defer timer.Stop()
			for {
				select {
				case c := <-h.arrivals:
					h.pending[c.step] = c
					if !timer.Stop() {
						select {
						case <-timer.C:
						default:
						}
					}
					timer.Reset(2 * time.Millisecond)
				case <-timer.C:
					return
				}
			}
		}
		// waitReaction: after completing a step, the order either launches the next gated step or begins exiting
		waitReaction := func() {
			select {
			case c := <-h.arrivals:
				h.pending[c.step] = c
			case <-o.lc.ShuttingDown():
			case <-time.After(100 * time.Millisecond):
			}
			absorb(time.Millisecond)
		}
		publishedWin := false
		parentDown := false
		terminated := false // a terminating stimulus was injected by the schedule
		absorb(5 * time.Millisecond)

		steps := rapid.IntRange(1, 10).Draw(t, "steps")
		for i := 0; i < steps && !exiting(); i++ {
			var names []string
			for _, s := range []string{"group", "bidquery", "auditor", "reserve", "pricing", "createbid"} {
				if _, ok := h.pending[s]; ok {
					names = append(names, s)
				}
			}
			kind := rapid.IntRange(0, 10).Draw(t, "action")
			switch {
			case kind <= 5 && len(names) > 0: // complete a pending step
				s := rapid.SampledFrom(names).Draw(t, "step")
				var rerr error
				if rapid.IntRange(0, 7).Draw(t, "fail") == 0 {
					rerr = errors.New("injected failure")
					if len(names) > 1 {
						inFlightAtInjection = true
					}
				}
				c := h.pending[s]
				delete(h.pending, s)
				note("complete(%s,%v)", s, rerr == nil)
				c.release <- rerr
				waitReaction()
			case kind == 6:
				ev := mtypes.EventOrderClosed{ID: oid}
				if rapid.IntRange(0, 3).Draw(t, "otherOrder") == 0 {
					ev.ID.DSeq = 99
				} else {
					terminated = true
					if len(names) > 0 {
						inFlightAtInjection = true
					}
				}
				note("event(order-closed dseq=%d)", ev.ID.DSeq)
				_ = bus.Publish(ev)
				if ev.ID.DSeq == oid.DSeq {
					select {
					case <-o.lc.ShuttingDown():
					case <-time.After(c13Wait):
						t.Fatalf("C13 VIOLATION key=c13-ignores-order-closed: order monitor did not stop %v after its order was closed; schedule=%v", c13Wait, sched)
					}
				}
			case kind == 7:
				lid := mtypes.MakeLeaseID(mtypes.MakeBidID(oid, h.provider))
				which := rapid.IntRange(0, 3).Draw(t, "leaseFor")
				switch which {
				case 0, 1:
					if !exiting() {
						publishedWin = true
					}
				case 2:
					lid.Provider = otherProv.String()
				default:
					lid.GSeq = 9
				}
				if which != 3 {
					terminated = true
					if len(names) > 0 {
						inFlightAtInjection = true
					}
				}
				note("event(lease-created provider=%v gseq=%d)", lid.Provider == h.provider.String(), lid.GSeq)
				_ = bus.Publish(mtypes.EventLeaseCreated{ID: lid, Price: h.price})
				if which != 3 {
					select {
					case <-o.lc.ShuttingDown():
					case <-time.After(c13Wait):
						t.Fatalf("C13 VIOLATION key=c13-ignores-lease-created: order monitor did not stop after a lease was created for its group; schedule=%v", sched)
					}
				}
			case kind == 10:
				// market noise about ANOTHER provider's bid on the same order: it neither wins nor
				// loses anything for this provider and must not make the monitor drop its own bid
				other := mtypes.MakeBidID(oid, otherProv)
				if rapid.Bool().Draw(t, "foreignBidClosed") {
					note("event(bid-closed by another provider)")
					_ = bus.Publish(mtypes.EventBidClosed{ID: other, Price: h.price})
				} else {
					note("event(bid-created by another provider)")
					_ = bus.Publish(mtypes.EventBidCreated{ID: other, Price: h.price})
				}
				absorb(2 * time.Millisecond)
			case kind == 8 && !parentDown:
				parentDown = true
				note("shutdown")
				terminated = true
				if len(names) > 0 {
					inFlightAtInjection = true
				}
				svc.lc.ShutdownInitiated(nil)
				select {
				case <-o.lc.ShuttingDown():
				case <-time.After(c13Wait):
					t.Fatalf("C13 VIOLATION key=c13-ignores-shutdown: order monitor did not stop after its parent shut down; schedule=%v", sched)
				}
			default:
				note("wait")
				time.Sleep(20 * time.Millisecond) // lets a configured bid timeout fire
				absorb(time.Millisecond)
			}
		}
		// end of schedule: stop the order (unless it already stopped) and complete everything still in flight
		if !exiting() {
			note("final-shutdown")
			names := 0
			for range h.pending {
				names++
			}
			if names > 0 {
				inFlightAtInjection = true
			}
			func() {
				defer func() { _ = recover() }() // ShutdownInitiated panics if the schedule already shut the parent down
				svc.lc.ShutdownInitiated(nil)
			}()
			select {
			case <-o.lc.ShuttingDown():
			case <-time.After(c13Wait):
				t.Fatalf("C13 VIOLATION key=c13-ignores-shutdown: order monitor did not stop after its parent shut down; schedule=%v", sched)
			}
		}
		lateOK := rapid.SliceOfN(rapid.IntRange(0, 5), 12, 12).Draw(t, "lateResults")
		// a step still in flight may stay in flight well beyond the configured bid timeout before it completes
		if timeout > 0 && len(h.pending) > 0 && rapid.Bool().Draw(t, "lateResultsAreSlow") {
			note("in-flight steps outlast the bid timeout")
			time.Sleep(4 * timeout)
		}
		li := 0
		deadline := time.After(c13Wait)
	drain:
		for {
			var late []string
			for s := range h.pending {
				late = append(late, s)
			}
			sort.Strings(late) // never depend on map iteration order
			for _, s := range late {
				c := h.pending[s]
				var rerr error
				if lateOK[li%len(lateOK)] == 0 {
					rerr = errors.New("injected late failure")
				}
				li++
				note("late-complete(%s,%v)", s, rerr == nil)
				delete(h.pending, s)
				c.release <- rerr
			}
			select {
			case c := <-h.arrivals:
				h.pending[c.step] = c
			case <-o.lc.Done():
				break drain
			case <-deadline:
				t.Fatalf("C13 VIOLATION key=c13-never-terminates: order monitor still running %v after everything in flight was completed; schedule=%v log=%v", c13Wait, sched, h.log)
			}
		}
		_ = terminated

		// ---- oracle over the call log ----
		h.mu.Lock()
		calls := append([]string(nil), h.log...)
		h.mu.Unlock()
		vsCase("C13|"+strings.Join(sched, ";"), inFlightAtInjection)
		fail := func(key, f string, a ...interface{}) {
			t.Fatalf("C13 VIOLATION key=%s: %s\n-- schedule: %v\n-- call log: %v", key, fmt.Sprintf(f, a...), sched, calls)
		}
		idx := func(s string) []int {
			var out []int
			for i, c := range calls {
				if c == s {
					out = append(out, i)
				}
			}
			return out
		}
		createCalls := idx("call:createbid")
		if len(createCalls) > 1 {
			fail("c13-two-bids", "%d create-bid transactions were submitted for one order", len(createCalls))
		}
		if len(createCalls) > 0 && checkExisting && (h.bidFound == "found" || h.bidFound == "found-closed") && len(idx("ret:bidquery:ok")) > 0 {
			if bq := idx("ret:bidquery:ok"); bq[0] < createCalls[0] {
				fail("c13-two-bids", "the chain already holds this provider's bid for the order (%s, learnt before bidding) and a second create-bid transaction was submitted", h.bidFound)
			}
		}
		reserveOK := idx("ret:reserve:ok")
		if len(createCalls) == 1 {
			if len(reserveOK) == 0 || reserveOK[0] > createCalls[0] {
				fail("c13-bid-before-reservation", "a bid was submitted before a reservation had succeeded")
			}
			if h.price.Amount.GT(h.group.GroupSpec.Price().Amount) {
				fail("c13-bid-over-max", "a bid of %s was submitted, the order's maximum is %s", h.price, h.group.GroupSpec.Price())
			}
		}
		unres := idx("call:unreserve")
		closes := idx("call:closebid")
		bidExists := len(idx("ret:createbid:ok")) > 0 || (checkExisting && h.bidFound == "found" && len(idx("ret:bidquery:ok")) > 0)
		notWonOK := func() (bool, string) {
			for _, r := range reserveOK {
				after := false
				for _, u := range unres {
					if u > r {
						after = true
					}
				}
				if !after {
					return false, "a reservation that succeeded was never released"
				}
			}
			if bidExists && len(closes) == 0 {
				return false, "a bid exists (placed or found on chain) but no close-bid transaction was submitted"
			}
			return true, ""
		}
		if publishedWin {
			// the monitor may or may not have seen the event before it stopped for another reason
			wonPath := len(unres) == 0 && len(closes) == 0
			if ok, why := notWonOK(); !wonPath && !ok {
				fail("c13-leak", "handling ended neither as 'won' nor cleanly: %s", why)
			}
		} else if ok, why := notWonOK(); !ok {
			fail("c13-leak", "handling of the order ended without the lease being won, but %s", why)
		}
	})
}
