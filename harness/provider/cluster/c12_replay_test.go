package cluster

import (
	"context"
	"testing"
	"time"

	ctypes "github.com/ovrclk/akash/provider/cluster/types"
)

// Replay tier for C12: D3 (status queries inflate multi-unit reservations) and the seeded
// "unreserve returns ports" change.
func TestVerif_C12_Replay(t *testing.T) {
	cfg := Config{InventoryResourcePollPeriod: time.Hour, InventoryResourceDebugFrequency: 1, InventoryExternalPortQuantity: 2}
	s, err := c12Start(cfg, []ctypes.Node{NewNode("n0", c12RU(10, 10, 10), c12RU(9, 9, 9))})
	if err != nil {
		t.Fatal(err)
	}
	defer s.stop()
	units := []c12Unit{{cpu: 1, mem: 1, sto: 1, count: 1}, {cpu: 1, mem: 1, sto: 1, count: 1}}
	if _, err := s.is.reserve(c12Order(0), c12Group("g1", units)); err != nil {
		t.Fatalf("reserve: %v", err)
	}
	var seen []string
	for i := 0; i < 3; i++ {
		st, err := s.is.status(context.Background())
		if err != nil || len(st.Pending) != 1 {
			t.Fatalf("status: %v %+v", err, st)
		}
		seen = append(seen, c12Fmt(st.Pending[0]))
	}
	if seen[0] != seen[1] || seen[1] != seen[2] {
		t.Fatalf("C12 VIOLATION key=c12-status-amount-changed: the same reservation was reported as %v on consecutive status queries", seen)
	}
	// ports: reserve A (2 endpoints), release it undeployed, reserve B (2 endpoints); a third one-endpoint reservation must be refused
	if err := s.is.unreserve(c12Order(0)); err != nil {
		t.Fatal(err)
	}
	two := []c12Unit{{cpu: 1, mem: 1, sto: 1, count: 1, endpoints: 2}}
	one := []c12Unit{{cpu: 1, mem: 1, sto: 1, count: 1, endpoints: 1}}
	if _, err := s.is.reserve(c12Order(1), c12Group("g2", two)); err != nil {
		t.Fatalf("reserve A: %v", err)
	}
	if err := s.is.unreserve(c12Order(1)); err != nil {
		t.Fatal(err)
	}
	if _, err := s.is.reserve(c12Order(2), c12Group("g3", two)); err != nil {
		t.Fatalf("reserve B: %v", err)
	}
	if _, err := s.is.reserve(c12Order(3), c12Group("g4", one)); err == nil {
		t.Fatalf("C12 VIOLATION key=c12-overcommit: a reservation needing 1 external port was granted although both ports are taken by a pending reservation")
	}
}
