package pubsub

// C15, third mode — "closing a subscriber or the bus never blocks publishers or other
// subscribers": a subscriber with a generated number of clones (its tear-down takes a while)
// is closed by one goroutine while events are published and the bus itself is closed at a
// generated point of that tear-down. Every Close() must return, every Done() must fire, and
// a bystander subscribed before the publishes receives each of them exactly once, in order.

import (
	"errors"
	"fmt"
	"runtime"
	"testing"
	"time"

	"pgregory.net/rapid"
)

var c15RaceWait = c15Wait

func TestVerif_C15_CloseRace(t *testing.T) {
	vsInit("C15", c15Rule)
	defer vsFlush()
	rapid.Check(t, func(t *rapid.T) {
		// a blocked call is recognised by a bounded wait; once one case has failed (with the full
		// wait), the cases rapid tries while shrinking use a short one, or shrinking alone would
		// exhaust the time budget - the verdict comes from the first failure
		wait := c15RaceWait
		defer func() {
			if t.Failed() {
				c15RaceWait = time.Second
			}
		}()
		nClones := rapid.SampledFrom([]int{0, 1, 8, 200, 1500, 3000}).Draw(t, "clones")
		nested := rapid.IntRange(0, 2).Draw(t, "clonesOfClones")
		waitHow := rapid.IntRange(0, 2).Draw(t, "publishWhen") // 0: at once, 1: once the hub refuses clones, 2: after a few yields
		nPub := rapid.IntRange(0, 3).Draw(t, "publishes")
		closeBus := rapid.IntRange(0, 3).Draw(t, "closeBus") > 0
		yields := rapid.IntRange(0, 50).Draw(t, "yields")
		render := fmt.Sprintf("clones=%d nested=%d publishWhen=%d publishes=%d closeBus=%v yields=%d", nClones, nested, waitHow, nPub, closeBus, yields)

		b := NewBus()
		defer func() { go b.Close() }()
		hub, err := b.Subscribe()
		if err != nil {
			t.Fatalf("C15: Subscribe: %v", err)
		}
		bystander, err := b.Subscribe()
		if err != nil {
			t.Fatalf("C15: Subscribe: %v", err)
		}
		var all []Subscriber
		for i := 0; i < nClones; i++ {
			c, err := hub.Clone()
			if err != nil {
				t.Fatalf("C15: Clone of a running subscriber: %v", err)
			}
			all = append(all, c)
			if i < nested {
				cc, err := c.Clone()
				if err != nil {
					t.Fatalf("C15: Clone of a running clone: %v", err)
				}
				all = append(all, cc)
			}
		}
		hubClosed := make(chan struct{})
		go func() { hub.Close(); close(hubClosed) }()
		switch waitHow {
		case 1:
			deadline := time.Now().Add(wait)
			for {
				c, err := hub.Clone()
				if errors.Is(err, ErrNotRunning) {
					break
				}
				if err == nil {
					all = append(all, c)
				}
				if time.Now().After(deadline) {
					t.Fatalf("C15: a subscriber being closed still accepts clones after %v; %s", wait, render)
				}
				runtime.Gosched()
			}
		case 2:
			for i := 0; i < yields; i++ {
				runtime.Gosched()
			}
		}
		for i := 0; i < nPub; i++ {
			pd := make(chan error, 1)
			go func(i int) { pd <- b.Publish(c15Ev{0, i}) }(i)
			select {
			case err := <-pd:
				if err != nil {
					t.Fatalf("C15: Publish on a running bus while a subscriber closes: %v; %s", err, render)
				}
			case <-time.After(wait):
				t.Fatalf("C15: Publish blocked for %v while a subscriber was closing; %s", wait, render)
			}
		}
		for i := 0; i < nPub; i++ {
			ev, ok := c15ReadOne(bystander, wait)
			if !ok {
				t.Fatalf("C15: bystander did not receive event %d published while another subscriber was closing; %s", i, render)
			}
			if got, isEv := ev.(c15Ev); !isEv || got != (c15Ev{0, i}) {
				t.Fatalf("C15: bystander received %v, expected event %d; %s", ev, i, render)
			}
		}
		if closeBus {
			bd := make(chan struct{})
			go func() { b.Close(); close(bd) }()
			select {
			case <-bd:
			case <-time.After(wait):
				t.Fatalf("C15: bus.Close() blocked for %v while a subscriber was closing; %s", wait, render)
			}
			select {
			case <-b.Done():
			case <-time.After(wait):
				t.Fatalf("C15: bus closed but Done() did not fire; %s", render)
			}
		}
		select {
		case <-hubClosed:
		case <-time.After(wait):
			t.Fatalf("C15: Close() of a subscriber with %d clones still blocked %v later (bus closed meanwhile: %v); %s", nClones, wait, closeBus, render)
		}
		select {
		case <-hub.Done():
		case <-time.After(wait):
			t.Fatalf("C15: subscriber closed but its Done() did not fire; %s", render)
		}
		for i, c := range all {
			select {
			case <-c.Done():
			case <-time.After(wait):
				t.Fatalf("C15: clone %d of a closed subscriber never finished; %s", i, render)
			}
		}
		if extra, ok := c15ReadOne(bystander, time.Millisecond); ok && closeBus == false {
			t.Fatalf("C15: bystander received an extra event %v; %s", extra, render)
		}
		vsCase("closerace|"+render, nClones >= 200 && nPub > 0 && closeBus)
	})
}
