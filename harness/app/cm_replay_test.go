package app

// Replay tier: the shrunk counter-examples of the findings made by the chain-machine checks,
// written as plain scripted histories that bypass rapid. They run in seconds with every
// quick check and fail again if a finding returns.

import (
	"fmt"
	"testing"

	sdk "github.com/cosmos/cosmos-sdk/types"

	akashtypes "github.com/ovrclk/akash/types"
	dtypes "github.com/ovrclk/akash/x/deployment/types"
	mtypes "github.com/ovrclk/akash/x/market/types"
	ptypes "github.com/ovrclk/akash/x/provider/types"
)

type cmScript struct {
	m *chainMachine
}

func cmNewScript(t *testing.T, prop string, o cmOracle, p cmParams) *cmScript {
	return &cmScript{m: newChainMachineWith(t, prop, o, false, p)}
}

func (s *cmScript) group(name string, price int64, count uint32) dtypes.GroupSpec {
	return dtypes.GroupSpec{Name: name, Resources: []dtypes.Resource{{
		Resources: akashtypes.ResourceUnits{
			CPU:     &akashtypes.CPU{Units: akashtypes.NewResourceValue(100)},
			Memory:  &akashtypes.Memory{Quantity: akashtypes.NewResourceValue(16 << 20)},
			Storage: &akashtypes.Storage{Quantity: akashtypes.NewResourceValue(64 << 20)},
		},
		Count: count, Price: cmCoin(price),
	}}}
}

func (s *cmScript) must(tx *cmTx) *cmTx {
	if !tx.ok {
		s.m.t.Fatalf("replay script: %s was rejected: %s", tx.label, tx.resp.Log)
	}
	return tx
}

func (s *cmScript) deploy(ten *cmActor, dseq uint64, deposit int64, groups ...dtypes.GroupSpec) dtypes.DeploymentID {
	id := dtypes.DeploymentID{Owner: ten.bech, DSeq: dseq}
	s.must(s.m.deliver(fmt.Sprintf("CreateDeployment(%s/%d)", ten.name, dseq), &dtypes.MsgCreateDeployment{ID: id, Groups: groups, Version: cmVersion(1), Deposit: cmCoin(deposit)}, ten))
	return id
}

func (s *cmScript) provider(p *cmActor) {
	s.must(s.m.deliver("CreateProvider("+p.name+")", &ptypes.MsgCreateProvider{Owner: p.bech, HostURI: "https://" + p.name + ".example.com"}, p))
}

func (s *cmScript) lease(did dtypes.DeploymentID, gseq uint32, p *cmActor, price int64) mtypes.LeaseID {
	oid := mtypes.OrderID{Owner: did.Owner, DSeq: did.DSeq, GSeq: gseq, OSeq: 1}
	s.must(s.m.deliver("CreateBid", &mtypes.MsgCreateBid{Order: oid, Provider: p.bech, Price: cmCoin(price), Deposit: cmCoin(s.m.params.bidMin)}, p))
	bid := mtypes.MakeBidID(oid, p.addr)
	s.must(s.m.deliver("CreateLease", &mtypes.MsgCreateLease{BidID: bid}, s.m.byAddr[did.Owner]))
	return mtypes.MakeLeaseID(bid)
}

var cmReplayParams = cmParams{depMin: 10, bidMin: 10}

// D1a / D1b: deployment closed in the block of its last settlement / with nothing accrued.
func cmReplaySameBlockClose(t *testing.T, prop string, o cmOracle) {
	s := cmNewScript(t, prop, o, cmReplayParams)
	ten, prov := s.m.tenants()[0], s.m.providers()[0]
	did := s.deploy(ten, 1, 20, s.group("g1", 2, 1))
	s.provider(prov)
	s.lease(did, 1, prov, 2)
	s.must(s.m.deliver("CloseDeployment", &dtypes.MsgCloseDeployment{ID: did}, ten))
}

// D1b: withdraw (settles, balance zero) and close the lease in the same block.
func cmReplayWithdrawThenCloseLease(t *testing.T, prop string, o cmOracle) {
	s := cmNewScript(t, prop, o, cmReplayParams)
	ten, prov := s.m.tenants()[1], s.m.providers()[1]
	did := s.deploy(ten, 12, 50, s.group("g1", 3, 1))
	s.provider(prov)
	lid := s.lease(did, 1, prov, 3)
	s.m.advance(4)
	s.must(s.m.deliver("WithdrawLease", &mtypes.MsgWithdrawLease{LeaseID: lid}, prov))
	s.must(s.m.deliver("CloseLease", &mtypes.MsgCloseLease{LeaseID: lid}, ten))
	s.m.advance(3)
	s.m.deliver("WithdrawLease(after close)", &mtypes.MsgWithdrawLease{LeaseID: lid}, prov)
}

// seeded C03: exact exhaustion, withdraw at zero, later settlement overdraws with nothing to distribute.
func cmReplayExactExhaustion(t *testing.T, prop string, o cmOracle) {
	s := cmNewScript(t, prop, o, cmReplayParams)
	ten, prov := s.m.tenants()[2], s.m.providers()[2]
	did := s.deploy(ten, 256, 12, s.group("g1", 3, 1))
	s.provider(prov)
	lid := s.lease(did, 1, prov, 3)
	s.m.advance(4) // 12 / 3: balance is exactly zero now
	s.must(s.m.deliver("WithdrawLease(at exact exhaustion)", &mtypes.MsgWithdrawLease{LeaseID: lid}, prov))
	s.m.advance(2)
	s.m.deliver("WithdrawLease", &mtypes.MsgWithdrawLease{LeaseID: lid}, prov)
	s.m.deliver("CloseDeployment", &dtypes.MsgCloseDeployment{ID: did}, ten)
}

func TestVerif_C03_Replay(t *testing.T) {
	cmReplaySameBlockClose(t, "C03", &cmC03{})
	cmReplayWithdrawThenCloseLease(t, "C03", &cmC03{})
	cmReplayExactExhaustion(t, "C03", &cmC03{})
}

func TestVerif_C05_Replay(t *testing.T) {
	cmReplaySameBlockClose(t, "C05", &cmC05{})
	cmReplayWithdrawThenCloseLease(t, "C05", &cmC05{})
	cmReplayExactExhaustion(t, "C05", &cmC05{})
}

func TestVerif_C01_Replay(t *testing.T) {
	cmReplaySameBlockClose(t, "C01", &cmC01{})
	cmReplayWithdrawThenCloseLease(t, "C01", &cmC01{})
	cmReplayExactExhaustion(t, "C01", &cmC01{})
}

// D2: overdraft, then the tenant starts the insufficient-funds group.
func TestVerif_C04_Replay(t *testing.T) {
	s := cmNewScript(t, "C04", &cmC04{}, cmReplayParams)
	ten, prov := s.m.tenants()[2], s.m.providers()[1]
	did := s.deploy(ten, 12, 10, s.group("g1", 6, 1), s.group("g2", 14, 1))
	s.provider(prov)
	lid := s.lease(did, 1, prov, 6)
	s.m.advance(2)
	s.must(s.m.deliver("CloseGroup(g2)", &dtypes.MsgCloseGroup{ID: dtypes.GroupID{Owner: did.Owner, DSeq: did.DSeq, GSeq: 2}}, ten))
	s.must(s.m.deliver("CloseBid(matched)", &mtypes.MsgCloseBid{BidID: mtypes.BidID(lid)}, prov)) // settles: 12 > 10, overdraft
	tx := s.m.deliver("StartGroup(g1)", &dtypes.MsgStartGroup{ID: lid.GroupID()}, ten)
	if tx.ok {
		t.Fatalf("C04 VIOLATION key=c04-start-after-overdraft: a group closed for insufficient funds was started again")
	}
	s.m.deliver("PauseGroup(g1)", &dtypes.MsgPauseGroup{ID: lid.GroupID()}, ten)
}

// D10: group-paused / group-started events decode; plus the cascade of a close during overdraft.
func TestVerif_C16_Replay(t *testing.T) {
	s := cmNewScript(t, "C16", &cmC16{}, cmReplayParams)
	ten, prov := s.m.tenants()[0], s.m.providers()[0]
	did := s.deploy(ten, 1, 11, s.group("g1", 1, 1), s.group("g2", 1, 1))
	gid := dtypes.GroupID{Owner: did.Owner, DSeq: did.DSeq, GSeq: 1}
	s.must(s.m.deliver("PauseGroup", &dtypes.MsgPauseGroup{ID: gid}, ten))
	s.must(s.m.deliver("StartGroup", &dtypes.MsgStartGroup{ID: gid}, ten))
	s.provider(prov)
	oid := mtypes.OrderID{Owner: did.Owner, DSeq: did.DSeq, GSeq: 1, OSeq: 2}
	s.must(s.m.deliver("CreateBid", &mtypes.MsgCreateBid{Order: oid, Provider: prov.bech, Price: cmCoin(1), Deposit: cmCoin(10)}, prov))
	s.must(s.m.deliver("CreateLease", &mtypes.MsgCreateLease{BidID: mtypes.MakeBidID(oid, prov.addr)}, ten))
	s.m.advance(20) // 20 > 11: the next settlement overdraws
	s.must(s.m.deliver("CloseGroup(during overdraft)", &dtypes.MsgCloseGroup{ID: gid}, ten))
}

// D7: MaxGroupCount.
func TestVerif_C19_Replay(t *testing.T) {
	base := &chainMachine{t: t, prop: "C19", oracle: cmBaseOracle{}, labels: map[string]bool{}, byAddr: map[string]*cmActor{},
		msgStat: map[string][2]int{}, payCreated: map[string]int64{}, payClosed: map[string]int64{}}
	base.actors = cmNewActors()
	base.params = cmParams{depMin: 5_000_000, bidMin: 50_000_000}
	base.app = cmNewApp(base.actors, base.params)
	base.beginBlock(1)
	minDep := sdk.NewInt64Coin(cmDenom, base.params.depMin)
	for _, n := range []int{20, 21, 25} {
		msg := &dtypes.MsgCreateDeployment{ID: dtypes.DeploymentID{Owner: base.actors[0].bech, DSeq: uint64(n)}, Version: cmVersion(1), Deposit: minDep}
		for i := 0; i < n; i++ {
			msg.Groups = append(msg.Groups, dtypes.GroupSpec{Name: fmt.Sprintf("g%d", i), Resources: []dtypes.Resource{c19Unit(100, 16<<20, 64<<20, 1, 1)}})
		}
		admitted, why := c19Admit(base, msg)
		viol := c19Violations(msg, minDep)
		if admitted && len(viol) > 0 {
			t.Fatalf("C19 VIOLATION key=c19-admitted-out-of-limits: %d groups admitted: %v", n, viol)
		}
		if !admitted && len(viol) == 0 {
			t.Fatalf("C19 replay: %d groups rejected although within limits: %s", n, why)
		}
	}
}
