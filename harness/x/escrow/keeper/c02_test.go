package keeper_test

// C02 domain A — exhaustive small-domain enumeration of the real escrow keeper over a
// real store with an in-memory ledger as bank. All deposits 0..12, 1-3 payments with
// rates 1..4 created at offsets 0..2, and all schedules of up to N settlement triggers
// (withdraw / close payment / deposit / close account) over heights 1..8.
// The oracle is trigger independent: accrual recomputed from recorded heights.

import (
	"fmt"
	"testing"
	"time"

	"github.com/cosmos/cosmos-sdk/store"
	sdk "github.com/cosmos/cosmos-sdk/types"
	"github.com/tendermint/tendermint/libs/log"
	tmproto "github.com/tendermint/tendermint/proto/tendermint/types"
	dbm "github.com/tendermint/tm-db"

	"github.com/ovrclk/akash/x/escrow/keeper"
	"github.com/ovrclk/akash/x/escrow/types"
)

const c02aRule = "keeper-level enumeration: case = (deposit 0..12, 1-3 payments with rates 1..4 and creation offsets 0..2, schedule of <=N triggers at heights 1..8 of kind withdraw/close-payment/deposit/close-account); non-trivial = >=2 payments open concurrently or an overdraft occurs; distinct by construction (each tuple enumerated once)"

type c02Ledger struct {
	module int64
	users  map[string]int64
}

func (l *c02Ledger) SendCoinsFromModuleToAccount(ctx sdk.Context, senderModule string, recipientAddr sdk.AccAddress, amt sdk.Coins) error {
	n := amt.AmountOf("uakt").Int64()
	if n > l.module {
		return fmt.Errorf("ledger: module account overdrawn (%d > %d)", n, l.module)
	}
	l.module -= n
	l.users[recipientAddr.String()] += n
	return nil
}

func (l *c02Ledger) SendCoinsFromAccountToModule(ctx sdk.Context, senderAddr sdk.AccAddress, recipientModule string, amt sdk.Coins) error {
	n := amt.AmountOf("uakt").Int64()
	l.users[senderAddr.String()] -= n
	l.module += n
	return nil
}

type c02Pay struct {
	rate    int64
	offset  int64
	created int64 // height, -1 if not created
	closed  int64 // height at which it stopped being open, -1 while open
}

type c02Trig struct {
	h    int64
	kind int // 0 withdraw p0, 1 close p0, 2 withdraw last, 3 deposit 2, 4 close account, 5 close last
}

var c02KindName = []string{"withdraw(p0)", "close(p0)", "withdraw(pLast)", "deposit(2)", "closeAccount", "close(pLast)"}

func coin(n int64) sdk.Coin { return sdk.NewInt64Coin("uakt", n) }

type c02Env struct {
	base   sdk.Context
	skey   sdk.StoreKey
	cdc    interface{}
	owner  sdk.AccAddress
	payees []sdk.AccAddress
}

func c02Setup() (*c02Env, func(l *c02Ledger) keeper.Keeper) {
	key := sdk.NewKVStoreKey(types.StoreKey)
	db := dbm.NewMemDB()
	ms := store.NewCommitMultiStore(db)
	ms.MountStoreWithDB(key, sdk.StoreTypeIAVL, db)
	if err := ms.LoadLatestVersion(); err != nil {
		panic(err)
	}
	ctx := sdk.NewContext(ms, tmproto.Header{Time: time.Unix(0, 0)}, false, log.NewNopLogger())
	env := &c02Env{base: ctx, skey: key}
	env.owner = sdk.AccAddress([]byte("verif-c02-owner-----"))
	for i := 0; i < 3; i++ {
		env.payees = append(env.payees, sdk.AccAddress([]byte(fmt.Sprintf("verif-c02-payee-%d---", i))))
	}
	return env, func(l *c02Ledger) keeper.Keeper { return keeper.NewKeeper(types.ModuleCdc, key, l) }
}

type c02Fail struct{ msg string }

// c02RunCase executes one enumerated case on a discarded branch; returns (nontrivial, overdraftWithRemainder).
func c02RunCase(env *c02Env, mk func(*c02Ledger) keeper.Keeper, D int64, pays []c02Pay, sched []c02Trig) (nontrivial, odRem bool, failure string) {
	led := &c02Ledger{users: map[string]int64{}}
	k := mk(led)
	ctx, _ := env.base.CacheContext()
	const h0 = 100
	aid := types.AccountID{Scope: "deployment", XID: "x/1"}
	desc := func() string {
		s := fmt.Sprintf("D=%d pays=", D)
		for _, p := range pays {
			s += fmt.Sprintf("(rate %d @+%d)", p.rate, p.offset)
		}
		s += " sched="
		for _, tr := range sched {
			s += fmt.Sprintf("[h+%d %s]", tr.h, c02KindName[tr.kind])
		}
		return s
	}
	fail := func(f string, a ...interface{}) string { return fmt.Sprintf(f, a...) + " :: " + desc() }
	defer func() {
		if r := recover(); r != nil {
			if cf, ok := r.(c02Fail); ok {
				failure = cf.msg
				return
			}
			failure = fail("panic: %v", r)
		}
	}()
	ps := make([]c02Pay, len(pays))
	copy(ps, pays)
	for i := range ps {
		ps[i].created, ps[i].closed = -1, -1
	}
	deposits := D
	everOverdrawn := false
	if err := k.AccountCreate(ctx.WithBlockHeight(h0), aid, env.owner, coin(D)); err != nil {
		panic(c02Fail{fail("AccountCreate: %v", err)})
	}
	pid := func(i int) string { return fmt.Sprintf("1/1/p%d", i) }

	check := func(h int64, what string) {
		acc, err := k.GetAccount(ctx, aid)
		if err != nil {
			panic(c02Fail{fail("GetAccount: %v", err)})
		}
		if acc.State == types.AccountOverdrawn {
			everOverdrawn = true
		}
		credited := int64(0)
		open := 0
		for i := range ps {
			if ps[i].created < 0 {
				continue
			}
			p, err := k.GetPayment(ctx, aid, pid(i))
			if err != nil {
				panic(c02Fail{fail("GetPayment: %v", err)})
			}
			if p.State != types.PaymentOpen && ps[i].closed < 0 {
				ps[i].closed = h
			}
			if p.State == types.PaymentOpen {
				open++
			}
			earned := p.Balance.Amount.Int64() + p.Withdrawn.Amount.Int64()
			credited += earned
			last := acc.SettledAt
			if ps[i].closed >= 0 {
				last = ps[i].closed
			}
			full := ps[i].rate * (last - ps[i].created)
			if earned > full {
				panic(c02Fail{fail("after %s at h+%d: payment %d earned %d > rate %d x %d blocks", what, h-h0, i, earned, ps[i].rate, last-ps[i].created)})
			}
			if !everOverdrawn && earned != full {
				panic(c02Fail{fail("after %s at h+%d: payment %d earned %d, want exactly rate %d x %d blocks = %d", what, h-h0, i, earned, ps[i].rate, last-ps[i].created, full)})
			}
			if p.State != types.PaymentOpen && !p.Balance.Amount.IsZero() {
				panic(c02Fail{fail("after %s: closed payment %d keeps balance %s", what, i, p.Balance)})
			}
			if got := led.users[env.payees[i].String()]; got != p.Withdrawn.Amount.Int64() {
				panic(c02Fail{fail("after %s: payee %d received %d but Withdrawn says %s", what, i, got, p.Withdrawn.Amount)})
			}
		}
		if open >= 2 {
			nontrivial = true
		}
		if acc.Transferred.Amount.Int64() != credited {
			panic(c02Fail{fail("after %s at h+%d: account transferred %s but payees were credited %d", what, h-h0, acc.Transferred.Amount, credited)})
		}
		tot := acc.Balance.Amount.Int64() + acc.Transferred.Amount.Int64()
		if acc.State == types.AccountOpen && tot != deposits {
			panic(c02Fail{fail("after %s: balance+transferred=%d but deposits=%d", what, tot, deposits)})
		}
		if acc.Transferred.Amount.Int64() > deposits {
			panic(c02Fail{fail("after %s: transferred %s > deposited %d", what, acc.Transferred.Amount, deposits)})
		}
		if acc.State != types.AccountOpen && !acc.Balance.Amount.IsZero() {
			panic(c02Fail{fail("after %s: %s account keeps balance %s", what, acc.State, acc.Balance)})
		}
		// ledger conservation
		sum := acc.Balance.Amount.Int64()
		for i := range ps {
			if ps[i].created >= 0 {
				p, _ := k.GetPayment(ctx, aid, pid(i))
				sum += p.Balance.Amount.Int64()
			}
		}
		if sum != led.module {
			panic(c02Fail{fail("after %s: module ledger %d != recorded balances %d", what, led.module, sum)})
		}
	}

	// op wraps one keeper call with the overdraft validity predicate
	op := func(h int64, what string, f func(sdk.Context) error) {
		pre, _ := k.GetAccount(ctx, aid)
		type snap struct{ earned int64 }
		preP := map[int]snap{}
		R := int64(0)
		for i := range ps {
			if ps[i].created >= 0 && ps[i].closed < 0 {
				p, _ := k.GetPayment(ctx, aid, pid(i))
				preP[i] = snap{p.Balance.Amount.Int64() + p.Withdrawn.Amount.Int64()}
				R += ps[i].rate
			}
		}
		_ = f(ctx.WithBlockHeight(h))
		post, _ := k.GetAccount(ctx, aid)
		if pre.State == types.AccountOpen && post.State == types.AccountOverdrawn {
			nontrivial = true
			B := pre.Balance.Amount.Int64()
			if what == "deposit" {
				B = post.Balance.Amount.Int64() // not reachable: deposit never settles
			}
			if R <= 0 {
				panic(c02Fail{fail("overdraft without open payments")})
			}
			kk := B / R
			if B%R != 0 {
				odRem = true
			}
			sum := int64(0)
			for i, s := range preP {
				p, _ := k.GetPayment(ctx, aid, pid(i))
				inc := p.Balance.Amount.Int64() + p.Withdrawn.Amount.Int64() - s.earned
				if inc < ps[i].rate*kk || inc > ps[i].rate*kk+ps[i].rate {
					panic(c02Fail{fail("overdraft at h+%d (balance %d, total rate %d): payee %d got %d, outside [%d,%d]", h-h0, B, R, i, inc, ps[i].rate*kk, ps[i].rate*kk+ps[i].rate)})
				}
				sum += inc
			}
			if sum != B {
				panic(c02Fail{fail("overdraft at h+%d distributed %d of remaining %d", h-h0, sum, B)})
			}
		}
		check(h, what)
	}

	// closeOp: a successful PaymentClose(x) closes exactly the payment it names; the others stay
	// open unless the settlement inside overdrew the account
	closeOp := func(h int64, x int) {
		before := map[int]types.Payment_State{}
		for i := range ps {
			if ps[i].created >= 0 {
				p, _ := k.GetPayment(ctx, aid, pid(i))
				before[i] = p.State
			}
		}
		var cerr error
		op(h, fmt.Sprintf("close(p%d)", x), func(c sdk.Context) error { cerr = k.PaymentClose(c, aid, pid(x)); return cerr })
		if cerr != nil {
			return
		}
		acc, _ := k.GetAccount(ctx, aid)
		for i, st := range before {
			p, _ := k.GetPayment(ctx, aid, pid(i))
			if i == x && p.State == types.PaymentOpen {
				panic(c02Fail{fail("PaymentClose(p%d) at h+%d succeeded but the payment is still open", x, h-h0)})
			}
			if i != x && acc.State == types.AccountOpen && p.State != st {
				panic(c02Fail{fail("PaymentClose(p%d) at h+%d changed the state of payment %d from %s to %s (account still open)", x, h-h0, i, st, p.State)})
			}
		}
	}

	si := 0
	for dh := int64(0); dh <= 8; dh++ {
		h := h0 + dh
		for i := range ps {
			if ps[i].offset == dh {
				i := i
				var cerr error
				op(h, fmt.Sprintf("create(p%d)", i), func(c sdk.Context) error {
					cerr = k.PaymentCreate(c, aid, pid(i), env.payees[i], coin(ps[i].rate))
					if cerr == nil {
						ps[i].created = h
					}
					return cerr
				})
			}
		}
		for si < len(sched) && sched[si].h == dh {
			tr := sched[si]
			si++
			last := len(ps) - 1
			switch tr.kind {
			case 0:
				op(h, "withdraw(p0)", func(c sdk.Context) error { return k.PaymentWithdraw(c, aid, pid(0)) })
			case 1:
				closeOp(h, 0)
			case 2:
				op(h, "withdraw(pLast)", func(c sdk.Context) error { return k.PaymentWithdraw(c, aid, pid(last)) })
			case 3:
				op(h, "deposit", func(c sdk.Context) error {
					err := k.AccountDeposit(c, aid, coin(2))
					if err == nil {
						deposits += 2
					}
					return err
				})
			case 4:
				op(h, "closeAccount", func(c sdk.Context) error { return k.AccountClose(c, aid) })
			case 5:
				closeOp(h, last)
			}
		}
	}
	// final settlement so that every case ends with a comparison at h+9
	op(h0+9, "finalSettle", func(c sdk.Context) error { _, err := k.AccountSettle(c, aid); return err })
	return nontrivial, odRem, ""
}

func TestVerif_C02_Enum(t *testing.T) {
	vsInit("C02", c02aRule)
	defer vsFlush()
	env, mk := c02Setup()
	tier := vsTier()
	maxTrig := 2
	stride := vsEnvInt("VERIF_C02_STRIDE", 40)
	if tier == "thorough" {
		maxTrig = 3
		stride = vsEnvInt("VERIF_C02_STRIDE", 1)
	}
	shard, shards := vsEnvInt("VERIF_SHARD", 0), vsEnvInt("VERIF_C02_SHARDS", 1)
	seed := vsEnvInt("VERIF_SEED", 1)
	// payment configurations
	var cfgs [][]c02Pay
	for r := int64(1); r <= 4; r++ {
		for o := int64(0); o <= 2; o++ {
			cfgs = append(cfgs, []c02Pay{{rate: r, offset: o}})
		}
	}
	for r1 := int64(1); r1 <= 4; r1++ {
		for o1 := int64(0); o1 <= 2; o1++ {
			for r2 := int64(1); r2 <= 4; r2++ {
				for o2 := int64(0); o2 <= 2; o2++ {
					cfgs = append(cfgs, []c02Pay{{rate: r1, offset: o1}, {rate: r2, offset: o2}})
				}
			}
		}
	}
	for r1 := int64(1); r1 <= 4; r1++ {
		for r2 := int64(1); r2 <= 4; r2++ {
			for r3 := int64(1); r3 <= 4; r3++ {
				cfgs = append(cfgs, []c02Pay{{rate: r1, offset: 0}, {rate: r2, offset: 0}, {rate: r3, offset: 0}})
				cfgs = append(cfgs, []c02Pay{{rate: r1, offset: 0}, {rate: r2, offset: 1}, {rate: r3, offset: 2}})
			}
		}
	}
	// schedules: up to maxTrig triggers at strictly increasing heights 1..8
	var scheds [][]c02Trig
	var rec func(start int64, cur []c02Trig)
	rec = func(start int64, cur []c02Trig) {
		scheds = append(scheds, append([]c02Trig(nil), cur...))
		if len(cur) == maxTrig {
			return
		}
		for h := start; h <= 8; h++ {
			for kind := 0; kind < 6; kind++ {
				rec(h+1, append(cur, c02Trig{h: h, kind: kind}))
			}
		}
	}
	rec(1, nil)
	total, ran, nontriv, odRem := 0, 0, 0, 0
	samples := 0
	for ci, cfg := range cfgs {
		for D := int64(0); D <= 12; D++ {
			for sidx, sc := range scheds {
				total++
				if (total+seed)%stride != 0 {
					continue
				}
				if shards > 1 && total%shards != shard {
					continue
				}
				nt, od, failure := c02RunCase(env, mk, D, cfg, sc)
				ran++
				if failure != "" {
					key := "c02-enum"
					if !vsKnown(key) {
						t.Fatalf("C02 VIOLATION key=%s: %s", key, failure)
					}
				}
				if od {
					odRem++
				}
				if nt {
					nontriv++
					if samples < 4 && (ci*7+sidx)%997 == 3 {
						samples++
						vsCase(fmt.Sprintf("enum|D=%d cfg=%v sched=%v", D, cfg, sc), true)
						continue
					}
				}
				vsCountOnly(nt)
			}
		}
	}
	vsExtra("enum_space_total", total)
	vsExtra("enum_cases_run", ran)
	vsExtra("enum_overdraft_with_nonzero_remainder", odRem)
	vsSetExhaustive(stride == 1 && shards == 1)
	if odRem == 0 {
		t.Fatalf("VERIF-INCONCLUSIVE: enumeration never hit an overdraft with a non-zero remainder")
	}
	fmt.Printf("VERIF-FIXED-COUNT enumeration ran %d of %d cases (stride %d), %d non-trivial, %d overdrafts with remainder\n", ran, total, stride, nontriv, odRem)
}
