package rest

// C09 — the gateway authenticates only holders of on-chain certificates and scopes every
// lease/deployment request to the authenticated tenant at this provider.
// The chain side is the REAL cert keeper and gRPC querier over a store (no mock that
// echoes what the test registered).

import (
	"bytes"
	"context"
	"crypto/ecdsa"
	"crypto/elliptic"
	"crypto/rand"
	"crypto/tls"
	"crypto/x509"
	"crypto/x509/pkix"
	"encoding/json"
	"encoding/pem"
	"fmt"
	"io"
	"math/big"
	"net/http"
	"net/http/httptest"
	"strings"
	"sync"
	"testing"
	"time"

	"github.com/cosmos/cosmos-sdk/crypto/keys/secp256k1"
	"github.com/cosmos/cosmos-sdk/store"
	sdk "github.com/cosmos/cosmos-sdk/types"
	"github.com/stretchr/testify/mock"
	"github.com/tendermint/tendermint/libs/log"
	tmproto "github.com/tendermint/tendermint/proto/tendermint/types"
	dbm "github.com/tendermint/tm-db"
	"google.golang.org/grpc"
	"google.golang.org/grpc/codes"
	"google.golang.org/grpc/status"
	"pgregory.net/rapid"

	pcmock "github.com/ovrclk/akash/provider/cluster/mocks"
	gwutils "github.com/ovrclk/akash/provider/gateway/utils"
	pmmock "github.com/ovrclk/akash/provider/manifest/mocks"
	pmock "github.com/ovrclk/akash/provider/mocks"
	ckeeper "github.com/ovrclk/akash/x/cert/keeper"
	ctypes "github.com/ovrclk/akash/x/cert/types"
	dtypes "github.com/ovrclk/akash/x/deployment/types"
	mtypes "github.com/ovrclk/akash/x/market/types"
)

const c09Rule = "client certificate of a non-genuine class whose (common name, serial) matches a currently valid on-chain entry (forged copy, re-issued with another key, wrong validity/usage twin), or a request path/query naming another tenant or provider"

type c09Chain struct {
	ctx sdk.Context
	k   ckeeper.Keeper
	mu  sync.Mutex
	// when set, every chain lookup announces itself and waits until the schedule releases it
	arrivals chan chan struct{}
	// when set, every chain lookup fails the way an unreachable node does
	down bool
}

func (c *c09Chain) Certificates(ctx context.Context, in *ctypes.QueryCertificatesRequest, _ ...grpc.CallOption) (*ctypes.QueryCertificatesResponse, error) {
	if c.arrivals != nil {
		release := make(chan struct{})
		c.arrivals <- release
		<-release
	}
	c.mu.Lock()
	defer c.mu.Unlock()
	if c.down {
		return nil, status.Error(codes.Unavailable, "verif: chain node unreachable")
	}
	return c.k.Querier().Certificates(sdk.WrapSDKContext(c.ctx), in)
}

func c09NewChain() *c09Chain {
	key := sdk.NewKVStoreKey(ctypes.StoreKey)
	db := dbm.NewMemDB()
	ms := store.NewCommitMultiStore(db)
	ms.MountStoreWithDB(key, sdk.StoreTypeIAVL, db)
	if err := ms.LoadLatestVersion(); err != nil {
		panic(err)
	}
	ctx := sdk.NewContext(ms, tmproto.Header{Time: time.Unix(0, 0)}, false, log.NewNopLogger())
	return &c09Chain{ctx: ctx, k: ckeeper.NewKeeper(ctypes.ModuleCdc, key)}
}

type c09Cert struct {
	der  []byte
	priv *ecdsa.PrivateKey
	pem  []byte
	pub  []byte
	tls  tls.Certificate
}

type c09Spec struct {
	cn, issuerCN string
	serial       *big.Int
	notBefore    time.Time
	notAfter     time.Time
	clientAuth   bool
	signer       *c09Cert // nil: self-signed
	key          *ecdsa.PrivateKey
}

func c09Make(s c09Spec) *c09Cert {
	priv := s.key
	if priv == nil {
		var err error
		priv, err = ecdsa.GenerateKey(elliptic.P256(), rand.Reader)
		if err != nil {
			panic(err)
		}
	}
	eku := []x509.ExtKeyUsage{x509.ExtKeyUsageServerAuth}
	if s.clientAuth {
		eku = []x509.ExtKeyUsage{x509.ExtKeyUsageClientAuth}
	}
	tmpl := &x509.Certificate{
		SerialNumber:          s.serial,
		Subject:               pkix.Name{CommonName: s.cn},
		NotBefore:             s.notBefore,
		NotAfter:              s.notAfter,
		KeyUsage:              x509.KeyUsageDataEncipherment | x509.KeyUsageKeyEncipherment,
		ExtKeyUsage:           eku,
		BasicConstraintsValid: true,
	}
	parent := tmpl
	signKey := priv
	if s.signer != nil {
		p, _ := x509.ParseCertificate(s.signer.der)
		parent = p
		signKey = s.signer.priv
	} else if s.issuerCN != "" && s.issuerCN != s.cn {
		// "self-signed" with a different issuer name
		parent = &x509.Certificate{Subject: pkix.Name{CommonName: s.issuerCN}, SerialNumber: big.NewInt(1)}
	}
	der, err := x509.CreateCertificate(rand.Reader, tmpl, parent, priv.Public(), signKey)
	if err != nil {
		panic(err)
	}
	pubDer, _ := x509.MarshalPKIXPublicKey(priv.Public())
	keyDer, _ := x509.MarshalPKCS8PrivateKey(priv)
	c := &c09Cert{der: der, priv: priv}
	c.pem = pem.EncodeToMemory(&pem.Block{Type: ctypes.PemBlkTypeCertificate, Bytes: der})
	c.pub = pem.EncodeToMemory(&pem.Block{Type: ctypes.PemBlkTypeECPublicKey, Bytes: pubDer})
	kp := pem.EncodeToMemory(&pem.Block{Type: ctypes.PemBlkTypeECPrivateKey, Bytes: keyDer})
	c.tls, err = tls.X509KeyPair(c.pem, kp)
	if err != nil {
		panic(err)
	}
	return c
}

var c09Tenants []sdk.AccAddress
var c09Provider sdk.AccAddress

func init() {
	for i := 0; i < 3; i++ {
		priv := secp256k1.GenPrivKeyFromSecret([]byte(fmt.Sprintf("verif-c09-tenant-%d", i)))
		c09Tenants = append(c09Tenants, sdk.AccAddress(priv.PubKey().Address()))
	}
	c09Provider = sdk.AccAddress(secp256k1.GenPrivKeyFromSecret([]byte("verif-c09-provider")).PubKey().Address())
}

type c09Case struct {
	class   string
	present [][]byte // DER chain presented
	tlsCert tls.Certificate
	expect  string // "accept" | "reject" | "any"
	hard    bool
	owner   int
}

// c09Build registers certificates on the (real) chain and builds the presented certificate.
func c09Build(t *rapid.T, chain *c09Chain) c09Case {
	now := time.Now()
	day := 24 * time.Hour
	o := rapid.IntRange(0, 2).Draw(t, "tenant")
	owner := c09Tenants[o]
	serial := new(big.Int).SetInt64(int64(rapid.IntRange(1, 1<<30).Draw(t, "serial")))
	good := c09Spec{cn: owner.String(), serial: serial, notBefore: now.Add(-30 * day), notAfter: now.Add(300 * day), clientAuth: true}
	register := func(c *c09Cert, who sdk.AccAddress) error {
		return chain.k.CreateCertificate(chain.ctx, who, c.pem, c.pub)
	}
	// background noise: other valid certificates of the same and other tenants
	for i := 0; i < rapid.IntRange(0, 2).Draw(t, "noise"); i++ {
		n := good
		n.cn = c09Tenants[(o+i)%3].String()
		n.serial = new(big.Int).Add(serial, big.NewInt(int64(i+1)))
		_ = register(c09Make(n), c09Tenants[(o+i)%3])
	}
	classes := []string{"genuine", "forged-copy", "forged-copy-of-noise-key", "revoked", "unknown", "expired", "not-yet-valid", "no-client-auth",
		"chain-of-two", "cn-not-address", "issuer-differs", "reissued-by-registered-key", "expired-twin-of-valid", "foreign-cn-registered-by-other",
		"forged-copy-of-record-with-pem-headers", "genuine-record-with-pem-headers", "forged-leaf-plus-genuine"}
	class := rapid.SampledFrom(classes).Draw(t, "class")
	cs := c09Case{class: class, expect: "reject", owner: o}
	switch class {
	case "genuine":
		c := c09Make(good)
		if err := register(c, owner); err != nil {
			panic(err)
		}
		cs.present, cs.tlsCert, cs.expect = [][]byte{c.der}, c.tls, "accept"
	case "forged-copy":
		// the tenant's real certificate is on chain; the attacker makes its own with the same name and serial
		real := c09Make(good)
		if err := register(real, owner); err != nil {
			panic(err)
		}
		f := c09Make(good)
		cs.present, cs.tlsCert, cs.hard = [][]byte{f.der}, f.tls, true
	case "forged-copy-of-noise-key":
		real := c09Make(good)
		if err := register(real, owner); err != nil {
			panic(err)
		}
		// attacker is another tenant with its own valid registered certificate, but presents a copy of the victim's name+serial signed with its own key
		att := good
		att.cn = c09Tenants[(o+1)%3].String()
		att.serial = new(big.Int).Add(serial, big.NewInt(77))
		attc := c09Make(att)
		_ = register(attc, c09Tenants[(o+1)%3])
		f := good
		f.key = attc.priv
		fc := c09Make(f)
		cs.present, cs.tlsCert, cs.hard = [][]byte{fc.der}, fc.tls, true
	case "revoked":
		c := c09Make(good)
		if err := register(c, owner); err != nil {
			panic(err)
		}
		if err := chain.k.RevokeCertificate(chain.ctx, ctypes.CertID{Owner: owner, Serial: *serial}); err != nil {
			panic(err)
		}
		cs.present, cs.tlsCert = [][]byte{c.der}, c.tls
	case "unknown":
		c := c09Make(good)
		cs.present, cs.tlsCert = [][]byte{c.der}, c.tls
	case "expired":
		s := good
		s.notBefore, s.notAfter = now.Add(-300*day), now.Add(-2*day)
		c := c09Make(s)
		_ = register(c, owner)
		cs.present, cs.tlsCert = [][]byte{c.der}, c.tls
	case "not-yet-valid":
		s := good
		s.notBefore, s.notAfter = now.Add(2*day), now.Add(300*day)
		c := c09Make(s)
		_ = register(c, owner)
		cs.present, cs.tlsCert = [][]byte{c.der}, c.tls
	case "no-client-auth":
		s := good
		s.clientAuth = false
		c := c09Make(s)
		_ = register(c, owner)
		cs.present, cs.tlsCert = [][]byte{c.der}, c.tls
	case "chain-of-two":
		c := c09Make(good)
		_ = register(c, owner)
		extra := c09Make(good)
		cs.present = [][]byte{c.der, extra.der}
		tc := c.tls
		tc.Certificate = [][]byte{c.der, extra.der}
		cs.tlsCert = tc
	case "forged-leaf-plus-genuine":
		// a two-element chain: the self-made copy first (its key signs the handshake), the tenant's
		// genuine - public - certificate behind it
		real := c09Make(good)
		_ = register(real, owner)
		f := c09Make(good)
		cs.present = [][]byte{f.der, real.der}
		tc := f.tls
		tc.Certificate = [][]byte{f.der, real.der}
		cs.tlsCert, cs.hard = tc, true
	case "cn-not-address":
		s := good
		s.cn = "not-a-bech32-address"
		c := c09Make(s)
		cs.present, cs.tlsCert = [][]byte{c.der}, c.tls
	case "issuer-differs":
		// valid registered certificate exists; presented one has the right subject+serial but another issuer name
		real := c09Make(good)
		_ = register(real, owner)
		s := good
		s.issuerCN = c09Tenants[(o+1)%3].String()
		c := c09Make(s)
		cs.present, cs.tlsCert, cs.hard = [][]byte{c.der}, c.tls, true
	case "reissued-by-registered-key":
		// signed by the registered certificate's key: possession of the key is proven; either verdict is compatible with the statement
		real := c09Make(good)
		_ = register(real, owner)
		s := good
		s.signer = real
		c := c09Make(s)
		cs.present, cs.tlsCert, cs.expect, cs.hard = [][]byte{c.der}, c.tls, "any", true
	case "expired-twin-of-valid":
		// a valid certificate is registered; the attacker presents an expired self-made twin (same name+serial)
		real := c09Make(good)
		_ = register(real, owner)
		s := good
		s.notBefore, s.notAfter = now.Add(-300*day), now.Add(-2*day)
		c := c09Make(s)
		cs.present, cs.tlsCert, cs.hard = [][]byte{c.der}, c.tls, true
	case "forged-copy-of-record-with-pem-headers", "genuine-record-with-pem-headers":
		// the tenant registered its certificate as a PEM block that carries header lines: x/cert
		// accepts it, x509.CertPool.AppendCertsFromPEM skips such blocks, so the gateway cannot
		// build a trust anchor from the chain record. A forged copy must still be rejected; the
		// genuine one may be refused (the statement only says when a client MAY be accepted).
		real := c09Make(good)
		blk, _ := pem.Decode(real.pem)
		blk.Headers = map[string]string{"Comment": "registered with a header"}
		withHdr := pem.EncodeToMemory(blk)
		if err := chain.k.CreateCertificate(chain.ctx, owner, withHdr, real.pub); err != nil {
			// the chain refuses such a record: then it is simply an unknown certificate
			vsLabel("pem-header-record-refused-by-chain")
		}
		if class == "genuine-record-with-pem-headers" {
			cs.present, cs.tlsCert, cs.expect = [][]byte{real.der}, real.tls, "any"
		} else {
			f := c09Make(good)
			cs.present, cs.tlsCert, cs.hard = [][]byte{f.der}, f.tls, true
		}
	case "foreign-cn-registered-by-other":
		// somebody else tries to publish a certificate naming the victim: the chain must refuse, and the gateway must not accept it
		c := c09Make(good)
		if err := register(c, c09Tenants[(o+1)%3]); err == nil {
			t.Fatalf("C09 VIOLATION key=c09-chain-accepts-foreign-cn: the chain registered a certificate naming %s for another account", owner)
		}
		cs.present, cs.tlsCert = [][]byte{c.der}, c.tls
	}
	return cs
}

func TestVerif_C09_Verify(t *testing.T) {
	vsInit("C09", c09Rule)
	defer vsFlush()
	rapid.Check(t, func(t *rapid.T) {
		chain := c09NewChain()
		cs := c09Build(t, chain)
		cfg, err := gwutils.NewServerTLSConfig(context.Background(), nil, chain)
		if err != nil {
			t.Fatalf("NewServerTLSConfig: %v", err)
		}
		verr := cfg.VerifyPeerCertificate(cs.present, nil)
		vsCase(fmt.Sprintf("verify|%s|tenant%d|%x", cs.class, cs.owner, cs.present[0][:24]), cs.hard, "class:"+cs.class)
		switch {
		case cs.expect == "accept" && verr != nil:
			t.Fatalf("C09 VIOLATION key=c09-genuine-rejected: the tenant's own registered, valid certificate was rejected: %v", verr)
		case cs.expect == "reject" && verr == nil:
			key := "c09-" + cs.class + "-accepted"
			if vsKnown(key) {
				return
			}
			t.Fatalf("C09 VIOLATION key=%s: a client certificate of class %q was ACCEPTED as tenant %s", key, cs.class, c09Tenants[cs.owner])
		}
		if cs.expect == "any" {
			if verr == nil {
				vsLabel("reissued-accepted")
			} else {
				vsLabel("reissued-rejected")
			}
		}
	})
}

// ---- real handshakes and request scoping -------------------------------------------------------

type c09Recorder struct {
	mu     sync.Mutex
	leases []mtypes.LeaseID
	deps   []dtypes.DeploymentID
}

func c09Server(chain *c09Chain, rec *c09Recorder) *httptest.Server {
	pm := &pmmock.Client{}
	pc := &pcmock.Client{}
	pcl := &pmock.Client{}
	pcl.On("Manifest").Return(pm)
	pcl.On("Cluster").Return(pc)
	recLease := func(args mock.Arguments) {
		rec.mu.Lock()
		rec.leases = append(rec.leases, args.Get(1).(mtypes.LeaseID))
		rec.mu.Unlock()
	}
	pc.On("LeaseStatus", mock.Anything, mock.Anything).Run(recLease).Return(nil, fmt.Errorf("verif: recorded"))
	pc.On("ServiceStatus", mock.Anything, mock.Anything, mock.Anything).Run(recLease).Return(nil, fmt.Errorf("verif: recorded"))
	pm.On("Submit", mock.Anything, mock.Anything, mock.Anything).Run(func(args mock.Arguments) {
		rec.mu.Lock()
		rec.deps = append(rec.deps, args.Get(1).(dtypes.DeploymentID))
		rec.mu.Unlock()
	}).Return(fmt.Errorf("verif: recorded"))
	router := newRouter(log.NewNopLogger(), c09Provider, pcl)
	ts := httptest.NewUnstartedServer(router)
	pcertSpec := c09Spec{cn: c09Provider.String(), serial: big.NewInt(4242), notBefore: time.Now().Add(-time.Hour), notAfter: time.Now().Add(24 * time.Hour), clientAuth: true}
	pcert := c09Make(pcertSpec)
	cfg, err := gwutils.NewServerTLSConfig(context.Background(), []tls.Certificate{pcert.tls}, chain)
	if err != nil {
		panic(err)
	}
	ts.TLS = cfg
	ts.StartTLS()
	return ts
}

func TestVerif_C09_Handshake(t *testing.T) {
	vsInit("C09", c09Rule)
	defer vsFlush()
	rapid.Check(t, func(t *rapid.T) {
		chain := c09NewChain()
		rec := &c09Recorder{}
		cs := c09Build(t, chain)
		ts := c09Server(chain, rec)
		defer ts.Close()
		hc := &http.Client{Timeout: 20 * time.Second, Transport: &http.Transport{
			TLSClientConfig:   &tls.Config{Certificates: []tls.Certificate{cs.tlsCert}, InsecureSkipVerify: true, MinVersion: tls.VersionTLS13}, // nolint: gosec
			DisableKeepAlives: true,
		}}
		// request generator: path and parameters naming other tenants / providers
		other := c09Tenants[(cs.owner+1)%3]
		seg := func(name string) string {
			return rapid.SampledFrom([]string{"1", "0", "12", "18446744073709551615", "18446744073709551616", "-1", other.String(), c09Tenants[cs.owner].String(), "..", "%2F", "1%2F2", "a"}).Draw(t, name)
		}
		var method, path string
		var body io.Reader
		switch rapid.IntRange(0, 3).Draw(t, "endpoint") {
		case 0:
			method, path = "GET", fmt.Sprintf("/lease/%s/%s/%s/status", seg("dseq"), seg("gseq"), seg("oseq"))
		case 1:
			method, path = "GET", fmt.Sprintf("/lease/%s/%s/%s/service/%s/status", seg("dseq"), seg("gseq"), seg("oseq"), rapid.SampledFrom([]string{"web", "..", other.String()}).Draw(t, "svc"))
		case 2:
			method, path = "PUT", fmt.Sprintf("/deployment/%s/manifest", seg("dseq"))
			body = bytes.NewReader([]byte(`[{"Name":"g","Services":[]}]`))
		default:
			method, path = "GET", fmt.Sprintf("/lease/%s/%s/%s/status", "1", "1", "1")
		}
		q := ""
		if rapid.Bool().Draw(t, "query") {
			q = fmt.Sprintf("?owner=%s&provider=%s&dseq=99", other.String(), other.String())
		}
		foreign := strings.Contains(path, other.String()) || q != ""
		req, err := http.NewRequest(method, ts.URL+path+q, body)
		if err != nil {
			t.Skip("unbuildable url")
		}
		resp, herr := hc.Do(req)
		status := 0
		if herr == nil {
			status = resp.StatusCode
			_, _ = io.Copy(io.Discard, resp.Body)
			resp.Body.Close()
		}
		rec.mu.Lock()
		leases := append([]mtypes.LeaseID(nil), rec.leases...)
		deps := append([]dtypes.DeploymentID(nil), rec.deps...)
		rec.mu.Unlock()
		reached := len(leases)+len(deps) > 0
		vsCase(fmt.Sprintf("handshake|%s|%s %s%s", cs.class, method, path, q), cs.hard || (foreign && cs.expect == "accept"), "hs-class:"+cs.class)
		if cs.expect == "reject" && (reached || (herr == nil && status != http.StatusUnauthorized && status < 500 && status != 400 && status != 404 && status != 405)) {
			if reached {
				key := "c09-" + cs.class + "-accepted"
				if vsKnown(key) {
					return
				}
				t.Fatalf("C09 VIOLATION key=%s: request with a %q client certificate reached the provider's handlers (%s %s -> %d), ids=%v %v", key, cs.class, method, path, status, leases, deps)
			}
		}
		if cs.expect == "reject" && herr == nil && status >= 200 && status < 300 {
			t.Fatalf("C09 VIOLATION key=c09-%s-served: request with a %q client certificate was served with status %d", cs.class, cs.class, status)
		}
		// scoping: whatever the URL says, the ids handed to the provider's services carry the authenticated owner and this provider
		for _, l := range leases {
			if l.Owner != c09Tenants[cs.owner].String() || l.Provider != c09Provider.String() {
				t.Fatalf("C09 VIOLATION key=c09-scope-lease: %s %s%s as tenant %s was executed against lease %v", method, path, q, c09Tenants[cs.owner], l)
			}
		}
		for _, d := range deps {
			if d.Owner != c09Tenants[cs.owner].String() {
				t.Fatalf("C09 VIOLATION key=c09-scope-deployment: %s %s%s as tenant %s was executed against deployment %v", method, path, q, c09Tenants[cs.owner], d)
			}
		}
		if cs.expect == "accept" && method == "GET" && path == "/lease/1/1/1/status" && !reached {
			t.Fatalf("C09 VIOLATION key=c09-genuine-not-served: genuine certificate, %s %s -> err=%v status=%d, handler never reached", method, path, herr, status)
		}
		_ = json.Valid
	})
}
