package rest

import (
	"context"
	"crypto/tls"
	"io"
	"math/big"
	"net/http"
	"testing"
	"time"

	gwutils "github.com/ovrclk/akash/provider/gateway/utils"
	ctypes "github.com/ovrclk/akash/x/cert/types"
)

// Replay tier for C09: D4 (forged copy), D11 (differing issuer) and the seeded "revoked" change.
func TestVerif_C09_Replay(t *testing.T) {
	chain := c09NewChain()
	owner := c09Tenants[0]
	now := time.Now()
	good := c09Spec{cn: owner.String(), serial: big.NewInt(777), notBefore: now.Add(-48 * time.Hour), notAfter: now.Add(48 * time.Hour), clientAuth: true}
	real := c09Make(good)
	if err := chain.k.CreateCertificate(chain.ctx, owner, real.pem, real.pub); err != nil {
		t.Fatalf("register: %v", err)
	}
	cfg, err := gwutils.NewServerTLSConfig(context.Background(), nil, chain)
	if err != nil {
		t.Fatal(err)
	}
	if err := cfg.VerifyPeerCertificate([][]byte{real.der}, nil); err != nil {
		t.Fatalf("C09 VIOLATION key=c09-genuine-rejected: %v", err)
	}
	forged := c09Make(good)
	if err := cfg.VerifyPeerCertificate([][]byte{forged.der}, nil); err == nil {
		t.Fatalf("C09 VIOLATION key=c09-forged-copy-accepted: a self-made certificate copying name and serial was accepted")
	}
	other := good
	other.issuerCN = c09Tenants[1].String()
	if err := cfg.VerifyPeerCertificate([][]byte{c09Make(other).der}, nil); err == nil {
		t.Fatalf("C09 VIOLATION key=c09-issuer-differs-accepted: a certificate with a foreign issuer name was accepted")
	}
	if err := chain.k.RevokeCertificate(chain.ctx, ctypes.CertID{Owner: owner, Serial: *big.NewInt(777)}); err != nil {
		t.Fatal(err)
	}
	if err := cfg.VerifyPeerCertificate([][]byte{real.der}, nil); err == nil {
		t.Fatalf("C09 VIOLATION key=c09-revoked-accepted: a revoked certificate was accepted")
	}
}

// D15: certificate revoked after a successful handshake; the next connection of the same client
// resumes the TLS session and must not be served as the owner any more.
func TestVerif_C09_Replay_ResumedSession(t *testing.T) {
	chain := c09NewChain()
	owner := c09Tenants[0]
	now := time.Now()
	c := c09Make(c09Spec{cn: owner.String(), serial: big.NewInt(778), notBefore: now.Add(-48 * time.Hour), notAfter: now.Add(48 * time.Hour), clientAuth: true})
	if err := chain.k.CreateCertificate(chain.ctx, owner, c.pem, c.pub); err != nil {
		t.Fatalf("register: %v", err)
	}
	rec := &c09Recorder{}
	ts := c09Server(chain, rec)
	defer ts.Close()
	hc := &http.Client{Timeout: 20 * time.Second, Transport: &http.Transport{
		TLSClientConfig: &tls.Config{Certificates: []tls.Certificate{c.tls}, InsecureSkipVerify: true, MinVersion: tls.VersionTLS13, // nolint: gosec
			ClientSessionCache: tls.NewLRUClientSessionCache(4)},
		DisableKeepAlives: true,
	}}
	reached := func() int {
		resp, err := hc.Get(ts.URL + "/lease/1/1/1/status")
		if err == nil {
			_, _ = io.Copy(io.Discard, resp.Body)
			resp.Body.Close()
		}
		rec.mu.Lock()
		defer rec.mu.Unlock()
		return len(rec.leases)
	}
	if reached() != 1 {
		t.Fatalf("C09 VIOLATION key=c09-genuine-not-served: the registered certificate was not served")
	}
	if err := chain.k.RevokeCertificate(chain.ctx, ctypes.CertID{Owner: owner, Serial: *big.NewInt(778)}); err != nil {
		t.Fatal(err)
	}
	if n := reached(); n != 1 {
		t.Fatalf("C09 VIOLATION key=c09-revoked-served: after the certificate was revoked on chain a new connection of the same client (resumed TLS session) was still served as %s", owner)
	}
}
