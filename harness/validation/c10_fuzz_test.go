package validation_test

// Native fuzz target for C10 (thorough tier): bytes -> JSON {"groups": [...], "manifest": [...]}.
// Only "accepted => the independent oracle accepts" is asserted; undecodable input,
// errors and panics count as rejection (the property does not speak about them).

import (
	"encoding/json"
	"testing"

	sdk "github.com/cosmos/cosmos-sdk/types"

	"github.com/ovrclk/akash/manifest"
	akashtypes "github.com/ovrclk/akash/types"
	"github.com/ovrclk/akash/validation"
	dtypes "github.com/ovrclk/akash/x/deployment/types"
)

type c10FuzzDoc struct {
	Groups   []dtypes.Group    `json:"groups"`
	Manifest manifest.Manifest `json:"manifest"`
}

func c10FuzzSeed(alter bool) []byte {
	ru := c10Palette[0].units()
	ru2 := c10Palette[3].units()
	ruE := ru
	ruE.Endpoints = []akashtypes.Endpoint{{Kind: akashtypes.Endpoint_SHARED_HTTP}, {Kind: akashtypes.Endpoint_RANDOM_PORT}}
	g := dtypes.Group{GroupSpec: dtypes.GroupSpec{Name: "g", Resources: []dtypes.Resource{
		{Resources: ruE, Count: 3, Price: sdk.NewInt64Coin("uakt", 1)},
		{Resources: ru2, Count: 1, Price: sdk.NewInt64Coin("uakt", 1)},
	}}}
	m := manifest.Manifest{{Name: "g", Services: []manifest.Service{
		{Name: "a", Image: "i", Resources: ru, Count: 2, Expose: []manifest.ServiceExpose{{Port: 80, Proto: manifest.TCP, Global: true}}},
		{Name: "b", Image: "i", Resources: ru2, Count: 1, Expose: []manifest.ServiceExpose{{Port: 53, Proto: manifest.UDP, Global: true}}},
		{Name: "c", Image: "i", Resources: ru, Count: 1},
	}}}
	if alter {
		m[0].Services[2].Count = 2
	}
	b, _ := json.Marshal(c10FuzzDoc{Groups: []dtypes.Group{g}, Manifest: m})
	return b
}

func FuzzC10CrossValidation(f *testing.F) {
	f.Add(c10FuzzSeed(false))
	f.Add(c10FuzzSeed(true))
	f.Fuzz(func(t *testing.T, data []byte) {
		var doc c10FuzzDoc
		if err := json.Unmarshal(data, &doc); err != nil {
			return
		}
		accepted := false
		func() {
			defer func() { _ = recover() }()
			// stay inside what real callers pass: a manifest that the provider's own validation admits
			if validation.ValidateManifest(doc.Manifest) != nil {
				return
			}
			for _, g := range doc.Groups {
				if g.GroupSpec.ValidateBasic() != nil {
					return
				}
			}
			accepted = validation.ValidateManifestWithDeployment(&doc.Manifest, doc.Groups) == nil
		}()
		if !accepted {
			return
		}
		names := map[string]bool{}
		for _, g := range doc.Groups {
			if names[g.GroupSpec.Name] {
				return // duplicate on-chain group names cannot exist on chain
			}
			names[g.GroupSpec.Name] = true
		}
		ok := false
		why := ""
		func() {
			defer func() { _ = recover() }()
			ok, why = c10Oracle(doc.Manifest, doc.Groups)
		}()
		if !ok {
			t.Fatalf("C10 VIOLATION key=c10-unequal-accepted: cross-validation ACCEPTED a manifest although %s", why)
		}
	})
}
