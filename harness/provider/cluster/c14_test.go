package cluster

// C14 — the deployment manager serialises cluster actions and always tears down.
// The real service loop, real deploymentManagers and real inventory run over a real
// bus; the cluster client's Deploy/TeardownLease block on gates owned by the harness, and
// the hostname service's request loop is played by the harness (it holds the reply until
// the schedule releases it).

import (
	"context"
	"errors"
	"fmt"
	"io"
	"sort"
	"strings"
	"sync"
	"testing"
	"time"

	lifecycle "github.com/boz/go-lifecycle"
	"github.com/cosmos/cosmos-sdk/crypto/keys/secp256k1"
	sdk "github.com/cosmos/cosmos-sdk/types"
	"github.com/tendermint/tendermint/libs/log"
	"k8s.io/client-go/tools/remotecommand"
	"pgregory.net/rapid"

	clientmocks "github.com/ovrclk/akash/client/mocks"
	"github.com/ovrclk/akash/manifest"
	ctypes "github.com/ovrclk/akash/provider/cluster/types"
	"github.com/ovrclk/akash/provider/event"
	"github.com/ovrclk/akash/provider/session"
	"github.com/ovrclk/akash/pubsub"
	atypes "github.com/ovrclk/akash/types"
	dtypes "github.com/ovrclk/akash/x/deployment/types"
	mtypes "github.com/ovrclk/akash/x/market/types"
	ptypes "github.com/ovrclk/akash/x/provider/types"
)

const c14Rule = "schedule in which a manifest update or the lease-closed signal is delivered while a cluster operation or the hostname-reservation reply is outstanding, or a manifest is delivered while the torn-down manager of the lease is still winding down (hostname release held)"

const c14Wait = 20 * time.Second

type c14Arrival struct {
	kind    string // host | deploy | teardown
	ver     string
	release chan error
	hostReq *reserveRequest
}

type c14Client struct {
	c12Client
	h *c14H
}

type c14H struct {
	mu       sync.Mutex
	log      []string
	arrivals chan *c14Arrival
	inFlight int
	overlap  string
}

func (h *c14H) rec(f string, a ...interface{}) {
	h.mu.Lock()
	h.log = append(h.log, fmt.Sprintf(f, a...))
	h.mu.Unlock()
}

func (h *c14H) begin(kind, ver string) *c14Arrival {
	h.mu.Lock()
	h.inFlight++
	if h.inFlight > 1 && h.overlap == "" {
		h.overlap = fmt.Sprintf("%s(%s) started while another cluster operation of the lease was running; log=%v", kind, ver, h.log)
	}
	h.log = append(h.log, kind+"-start:"+ver)
	h.mu.Unlock()
	a := &c14Arrival{kind: kind, ver: ver, release: make(chan error, 1)}
	h.arrivals <- a
	return a
}

func (h *c14H) end(kind, ver string, err error) {
	h.mu.Lock()
	h.inFlight--
	h.log = append(h.log, fmt.Sprintf("%s-end:%s:%v", kind, ver, err == nil))
	h.mu.Unlock()
}

func (c *c14Client) Deploy(ctx context.Context, lid mtypes.LeaseID, g *manifest.Group) error {
	ver := g.Services[0].Image
	a := c.h.begin("deploy", ver)
	err := <-a.release
	c.h.end("deploy", ver, err)
	return err
}

func (c *c14Client) TeardownLease(ctx context.Context, lid mtypes.LeaseID) error {
	a := c.h.begin("teardown", "")
	err := <-a.release
	c.h.end("teardown", "", err)
	return err
}

func (c *c14Client) Exec(ctx context.Context, lID mtypes.LeaseID, service string, podIndex uint, cmd []string, stdin io.Reader, stdout io.Writer, stderr io.Writer, tty bool, tsq remotecommand.TerminalSizeQueue) (ctypes.ExecResult, error) {
	return nil, nil
}

func (c *c14Client) LeaseStatus(context.Context, mtypes.LeaseID) (*ctypes.LeaseStatus, error) {
	return nil, errors.New("verif: no status")
}

type c14Tx struct{}

func (c14Tx) Broadcast(ctx context.Context, msgs ...sdk.Msg) error { return nil }

func c14Manifest(ver int, hosts []string) (*manifest.Manifest, *manifest.Group) {
	g := manifest.Group{Name: "g", Services: []manifest.Service{{
		Name: "web", Image: fmt.Sprintf("v%d", ver), Count: 1,
		Resources: c12RU(1, 1, 1),
		Expose:    []manifest.ServiceExpose{{Port: 80, Proto: manifest.TCP, Global: true, Hosts: hosts}},
	}}}
	m := manifest.Manifest{g}
	return &m, &g
}

func TestVerif_C14(t *testing.T) {
	vsInit("C14", c14Rule)
	defer vsFlush()
	rapid.Check(t, func(t *rapid.T) {
		h := &c14H{arrivals: make(chan *c14Arrival, 64)}
		provider := sdk.AccAddress(secp256k1.GenPrivKeyFromSecret([]byte("verif-c14-prov")).PubKey().Address())
		owner := sdk.AccAddress(secp256k1.GenPrivKeyFromSecret([]byte("verif-c14-owner")).PubKey().Address())
		lid := mtypes.LeaseID{Owner: owner.String(), DSeq: 5, GSeq: 1, OSeq: 1, Provider: provider.String()}
		hosts := []string{"app.example.com"}

		// --- assemble the real service with a hand-driven hostname service
		cl := &c14Client{h: h}
		cl.cond = sync.NewCond(&cl.mu)
		cl.setNodes([]ctypes.Node{NewNode("n0", c12RU(100, 100, 100), c12RU(100, 100, 100))})
		bus := pubsub.NewBus()
		defer bus.Close()
		cm := &clientmocks.Client{}
		cm.On("Tx").Return(c14Tx{})
		sess := session.New(log.NewNopLogger(), cm, &ptypes.Provider{Owner: provider.String()})
		lc := lifecycle.New()
		sub, err := bus.Subscribe()
		if err != nil {
			t.Fatalf("subscribe: %v", err)
		}
		cfg := Config{InventoryResourcePollPeriod: time.Hour, InventoryResourceDebugFrequency: 1, InventoryExternalPortQuantity: 10}
		inv, err := newInventoryService(cfg, log.NewNopLogger(), lc.ShuttingDown(), sub, cl, nil)
		if err != nil {
			t.Fatalf("inventory: %v", err)
		}
		heldHost := "held.example.com" // reserved by another deployment throughout
		heldBy := dtypes.DeploymentID{Owner: owner.String(), DSeq: 888}
		// refused reports whether the (real) reservation logic will refuse this request: only the
		// name held by the other deployment can make it do so
		refused := func(rr *reserveRequest) bool {
			for _, n := range rr.hostnames {
				if n == heldHost {
					return true
				}
			}
			return false
		}
		hs := &hostnameService{inUse: map[string]dtypes.DeploymentID{heldHost: heldBy}, requests: make(chan reserveRequest), releases: make(chan []string), lc: lifecycle.New()}
		hsQuery := make(chan func(), 4)
		hsStop := make(chan struct{})
		defer close(hsStop)
		holdRel := false // only touched inside the loop goroutine (through hsQuery)
		go func() {      // the hostname service's loop, played by the harness
			for {
				// while releases are held a manager that is winding down stays parked in its
				// deferred ReleaseHostnames: the window between "manager stopped" and "manager
				// reaped by the service" stays open for as long as the schedule wants
				relCh := hs.releases
				if holdRel {
					relCh = nil
				}
				select {
				case req := <-hs.requests:
					rr := req
					if !rr.doReserve {
						hs.doRequest(rr)
						continue
					}
					h.rec("host-req")
					h.arrivals <- &c14Arrival{kind: "host", release: make(chan error, 1), hostReq: &rr}
				case names := <-relCh:
					hs.doRelease(names)
					h.rec("host-release")
				case f := <-hsQuery:
					f()
				case <-hsStop:
					return
				}
			}
		}()
		s := &service{session: sess, client: cl, hostnames: hs, bus: bus, sub: sub, inventory: inv,
			statusch: make(chan chan<- *ctypes.Status), managers: make(map[string]*deploymentManager), managerch: make(chan *deploymentManager),
			log: log.NewNopLogger(), lc: lc}
		go s.run(nil)
		select {
		case <-inv.ready():
		case <-time.After(c14Wait):
			t.Fatalf("VERIF-INCONCLUSIVE inventory not ready")
		}
		defer func() { go s.lc.Shutdown(nil) }()

		_, mg0 := c14Manifest(0, hosts)
		if _, err := s.Reserve(lid.OrderID(), mg0); err != nil {
			t.Fatalf("reserve: %v", err)
		}
		dgroup := &dtypes.Group{GroupID: lid.GroupID(), GroupSpec: dtypes.GroupSpec{Name: "g"}}

		var sched []string
		note := func(f string, a ...interface{}) { sched = append(sched, fmt.Sprintf(f, a...)) }
		fail := func(key, f string, a ...interface{}) {
			h.mu.Lock()
			lg := append([]string(nil), h.log...)
			h.mu.Unlock()
			t.Fatalf("C14 VIOLATION key=%s: %s\n-- schedule: %v\n-- call log: %v", key, fmt.Sprintf(f, a...), sched, lg)
		}
		// barrier: a lease-closed event for a reserved dummy order travels the same bus; once the
		// dummy reservation is gone the service loop has handled every earlier event.
		barrierN := 0
		barrier := func() {
			barrierN++
			dl := mtypes.LeaseID{Owner: owner.String(), DSeq: uint64(1000 + barrierN), GSeq: 1, OSeq: 1, Provider: provider.String()}
			_, dg := c14Manifest(0, nil)
			if _, err := s.Reserve(dl.OrderID(), dg); err != nil {
				t.Fatalf("VERIF-INCONCLUSIVE barrier reserve: %v", err)
			}
			if err := bus.Publish(mtypes.EventLeaseClosed{ID: dl}); err != nil {
				t.Fatalf("VERIF-INCONCLUSIVE barrier publish: %v", err)
			}
			deadline := time.Now().Add(c14Wait)
			for {
				if _, err := inv.lookup(dl.OrderID(), dg); err != nil {
					return
				}
				if time.Now().After(deadline) {
					t.Fatalf("VERIF-INCONCLUSIVE barrier: service loop did not process events within %v (blocked?) schedule=%v", c14Wait, sched)
				}
				time.Sleep(200 * time.Microsecond)
			}
		}
		reserved := func() bool {
			_, err := inv.lookup(lid.OrderID(), mg0)
			return err == nil
		}

		var pendingHost, pendingOp *c14Arrival
		teardownAccepted := false // close delivered (and acknowledged) while a manager existed
		closeDelivered := false
		shutdown := false
		deployFailed := false
		hostFailed := false
		latestVer := -1
		managerEver := false
		interesting := false
		teardownErrs := 0
		closeDuringDeploy := false // the close signal was accepted while a deploy was running

		take := func(a *c14Arrival) {
			switch a.kind {
			case "host":
				pendingHost = a
				managerEver = true
			default:
				if a.kind == "deploy" && teardownAccepted {
					fail("c14-deploy-after-teardown", "a deploy (%s) was started after the lease-closed signal had been accepted by the manager", a.ver)
				}
				pendingOp = a
			}
		}
		// settle: collect the consequences of the last action
		settle := func(d time.Duration) {
			timer := time.NewTimer(d)
			defer timer.Stop()
			for {
				select {
				case a := <-h.arrivals:
					take(a)
					if !timer.Stop() {
						select {
						case <-timer.C:
						default:
						}
					}
					timer.Reset(3 * time.Millisecond)
				case <-timer.C:
					return
				}
			}
		}
		waitArrival := func(what string, d time.Duration) bool {
			select {
			case a := <-h.arrivals:
				take(a)
				settle(time.Millisecond)
				return true
			case <-time.After(d):
				return false
			}
		}
		_ = waitArrival

		held := rapid.IntRange(0, 2).Draw(t, "holdHostReleasesFromStart") == 0
		if held {
			note("host-releases-held(true)")
			done := make(chan struct{})
			hsQuery <- func() { holdRel = true; close(done) }
			<-done
		}
		steps := rapid.IntRange(2, 12).Draw(t, "steps")
		// with hostname releases held, a full life of the lease as a prelude (manifest, hostnames
		// granted, deploy finishes, lease closed, teardown finishes) leaves the torn-down manager
		// parked in its hostname release: the random steps that follow then act on that window
		var forced []int
		if held && rapid.Bool().Draw(t, "fullLifePrelude") {
			forced = []int{0, 4, 6, 3, 6}
			if steps < 8 {
				steps = 8
			}
		}
		for i := 0; i < steps; i++ {
			outstanding := pendingHost != nil || pendingOp != nil
			act := rapid.IntRange(0, 12).Draw(t, "action")
			if len(forced) > 0 {
				act, forced = forced[0], forced[1:]
			}
			if held && teardownAccepted && !outstanding && !shutdown && rapid.IntRange(0, 2).Draw(t, "manifestWhileWindingDown") > 0 {
				act = 0 // a manifest for the lease while its torn-down manager is still winding down
				interesting = true
			}
			switch act {
			case 11, 12: // the hostname service stops / resumes taking releases
				held = rapid.Bool().Draw(t, "holdHostReleases")
				hold := held
				note("host-releases-held(%v)", hold)
				done := make(chan struct{})
				hsQuery <- func() { holdRel = hold; close(done) }
				<-done
				settle(20 * time.Millisecond)
			case 0, 1, 2: // manifest update
				if shutdown {
					continue
				}
				latestVer++
				// each version may name another set of hostnames; an update may also name one that
				// belongs to a different deployment
				vhosts := hosts
				if latestVer > 0 || rapid.Bool().Draw(t, "firstHostsVary") {
					pal := []string{"app.example.com", "b.example.com", "c.example.com"}
					if latestVer > 0 || rapid.IntRange(0, 2).Draw(t, "firstNamesHeldHost") == 0 {
						// (in the first manifest the reservation is refused when it reaches this name)
						pal = append(pal, heldHost)
					}
					vhosts = rapid.SliceOfNDistinct(rapid.SampledFrom(pal), 1, 2, func(x string) string { return x }).Draw(t, "hosts")
				}
				m, _ := c14Manifest(latestVer, vhosts)
				note("manifest(v%d,hosts=%v)", latestVer, vhosts)
				if outstanding {
					interesting = true
				}
				if err := bus.Publish(event.ManifestReceived{LeaseID: lid, Manifest: m, Group: dgroup}); err != nil {
					t.Fatalf("publish: %v", err)
				}
				barrier()
				settle(30 * time.Millisecond)
			case 3, 10: // lease closed
				if shutdown {
					continue
				}
				note("lease-closed")
				if outstanding {
					interesting = true
				}
				if err := bus.Publish(mtypes.EventLeaseClosed{ID: lid}); err != nil {
					t.Fatalf("publish: %v", err)
				}
				barrier()
				closeDelivered = true
				if managerEver && reserved() {
					// a manager exists (the service releases the reservation only when the manager is gone)
					teardownAccepted = true
					if pendingOp != nil && pendingOp.kind == "deploy" {
						closeDuringDeploy = true
					}
				}
				settle(30 * time.Millisecond)
			case 4, 5: // hostname reply
				if pendingHost == nil {
					continue
				}
				ok := rapid.IntRange(0, 5).Draw(t, "hostOK") > 0
				note("host-reply(%v)", ok)
				a := pendingHost
				pendingHost = nil
				done := make(chan struct{})
				hsQuery <- func() {
					if ok {
						hs.doRequest(*a.hostReq)
						if refused(a.hostReq) {
							hostFailed = true
						}
					} else {
						a.hostReq.result <- errors.New("verif: hostname refused")
					}
					close(done)
				}
				<-done
				if !ok {
					hostFailed = true
				}
				settle(50 * time.Millisecond)
			case 6, 7, 8: // finish the running cluster operation
				if pendingOp == nil {
					continue
				}
				a := pendingOp
				pendingOp = nil
				var rerr error
				failOdds := 5
				if closeDelivered {
					failOdds = 2 // failures after the close signal are the rare, interesting ones
				}
				if rapid.IntRange(0, failOdds).Draw(t, "opFails") == 0 && (a.kind == "deploy" || teardownErrs < 2) {
					rerr = errors.New("verif: injected cluster failure")
					if a.kind == "deploy" {
						deployFailed = true
					} else {
						teardownErrs++
					}
				}
				note("finish(%s%s,%v)", a.kind, a.ver, rerr == nil)
				a.release <- rerr
				if a.kind == "teardown" && rerr != nil {
					settle(400 * time.Millisecond) // the manager retries after a back-off
				} else {
					settle(50 * time.Millisecond)
				}
			default:
				if shutdown {
					continue
				}
				note("shutdown")
				shutdown = true
				go s.lc.Shutdown(nil)
				settle(20 * time.Millisecond)
			}
			h.mu.Lock()
			ov := h.overlap
			h.mu.Unlock()
			if ov != "" {
				fail("c14-overlap", "%s", ov)
			}
		}

		// ---- drive to quiescence: answer everything outstanding successfully
		note("drain")
		{
			done := make(chan struct{})
			hsQuery <- func() { holdRel = false; close(done) }
			<-done
		}
		quiet := 0
		deadline := time.Now().Add(c14Wait)
		for quiet < 3 {
			if time.Now().After(deadline) {
				fail("c14-never-quiescent", "cluster operations keep arriving / the manager does not settle")
			}
			progressed := false
			if pendingHost != nil {
				a := pendingHost
				pendingHost = nil
				done := make(chan struct{})
				hsQuery <- func() { hs.doRequest(*a.hostReq); close(done) }
				<-done
				if refused(a.hostReq) {
					hostFailed = true
				}
				note("drain:host-reply(true)")
				progressed = true
			}
			if pendingOp != nil {
				a := pendingOp
				pendingOp = nil
				note("drain:finish(%s%s,true)", a.kind, a.ver)
				a.release <- nil
				progressed = true
			}
			settle(40 * time.Millisecond)
			if progressed || pendingHost != nil || pendingOp != nil {
				quiet = 0
			} else {
				quiet++
			}
		}
		h.mu.Lock()
		lg := append([]string(nil), h.log...)
		ov := h.overlap
		h.mu.Unlock()
		vsCase("C14|"+strings.Join(sched, ";"), interesting)
		if ov != "" {
			fail("c14-overlap", "%s", ov)
		}
		lastDeployEnd, lastDeployStart, lastTeardownStart, lastDeployVer := -1, -1, -1, ""
		for i, e := range lg {
			switch {
			case strings.HasPrefix(e, "deploy-start:"):
				lastDeployStart = i
				lastDeployVer = strings.TrimPrefix(e, "deploy-start:")
			case strings.HasPrefix(e, "deploy-end:"):
				lastDeployEnd = i
			case strings.HasPrefix(e, "teardown-start:"):
				lastTeardownStart = i
			}
		}
		if teardownAccepted && !shutdown {
			// teardown after the last deploy finished (if anything was ever deployed), then everything is released
			// (a deploy that fails with no close pending ends the manager without teardown; but once the close
			// signal was accepted while a deploy was still running, teardown has to follow whatever that deploy returns)
			if lastDeployStart >= 0 && !(lastTeardownStart > lastDeployEnd && lastDeployEnd > lastDeployStart) && (!deployFailed || closeDuringDeploy) {
				fail("c14-no-teardown", "the lease was closed but teardown was not invoked after the last deploy finished")
			}
			// keep answering late arrivals (teardown retries after a back-off) while waiting
			pump := func() {
				for {
					select {
					case a := <-h.arrivals:
						if a.kind == "deploy" {
							fail("c14-deploy-after-teardown", "a deploy (%s) was started after the lease-closed signal had been accepted by the manager", a.ver)
						}
						if a.kind == "host" {
							done := make(chan struct{})
							hsQuery <- func() { hs.doRequest(*a.hostReq); close(done) }
							<-done
						} else {
							a.release <- nil
						}
					default:
						return
					}
				}
			}
			dl := time.Now().Add(c14Wait)
			for reserved() {
				pump()
				if time.Now().After(dl) {
					fail("c14-reservation-not-released", "the lease was closed and all operations finished, but its reservation is still held after %v", c14Wait)
				}
				time.Sleep(500 * time.Microsecond)
			}
			// hostnames are released in a deferred call of the manager goroutine; poll briefly.
			// Nothing may stay reserved for the lease's deployment, whatever the manifests named,
			// and what another deployment holds stays with it.
			leaked := func() (mine []string, heldOK bool) {
				res := make(chan struct{})
				hsQuery <- func() {
					for name, d := range hs.inUse {
						if d.Equals(lid.DeploymentID()) {
							mine = append(mine, name)
						}
					}
					heldOK = hs.inUse[heldHost].Equals(heldBy)
					close(res)
				}
				<-res
				sort.Strings(mine)
				return
			}
			dl = time.Now().Add(c14Wait)
			for {
				mine, heldOK := leaked()
				if !heldOK {
					fail("c14-foreign-hostname-released", "tearing down the lease released %s, which is reserved by another deployment", heldHost)
				}
				if len(mine) == 0 {
					break
				}
				if time.Now().After(dl) {
					fail("c14-hostnames-not-released", "the lease was closed and torn down but hostnames %v are still reserved for its deployment", mine)
				}
				time.Sleep(time.Millisecond)
			}
		}
		// a lease whose hostname reservation was refused never deploys: once it is closed nothing of
		// its (partly processed) request may stay reserved either
		if hostFailed && closeDelivered && !shutdown && !teardownAccepted {
			dl := time.Now().Add(c14Wait)
			for {
				res := make(chan []string, 1)
				hsQuery <- func() {
					var mine []string
					for name, d := range hs.inUse {
						if d.Equals(lid.DeploymentID()) {
							mine = append(mine, name)
						}
					}
					sort.Strings(mine)
					res <- mine
				}
				mine := <-res
				if len(mine) == 0 {
					break
				}
				if time.Now().After(dl) {
					fail("c14-hostnames-not-released", "the hostname reservation of the lease was refused and the lease is closed, but hostnames %v are still reserved for its deployment", mine)
				}
				time.Sleep(time.Millisecond)
			}
		}
		if !closeDelivered && !shutdown && !deployFailed && !hostFailed && latestVer >= 0 {
			if lastDeployVer != fmt.Sprintf("v%d", latestVer) {
				fail("c14-stale-manifest", "no close, no failure: the last deploy used manifest %q but the most recently received one is v%d", lastDeployVer, latestVer)
			}
		}
	})
}

var _ = atypes.ResourceUnits{}
