package app

import (
	"fmt"
	"sort"
	"strings"
	"testing"

	sdk "github.com/cosmos/cosmos-sdk/types"
	abci "github.com/tendermint/tendermint/abci/types"
	"pgregory.net/rapid"
)

func abciReq(tx []byte) abci.RequestDeliverTx { return abci.RequestDeliverTx{Tx: tx} }

// cmBaseOracle provides no-op hooks.
type cmBaseOracle struct{}

func (cmBaseOracle) beforeTx(*chainMachine, sdk.Msg, *cmActor)    {}
func (cmBaseOracle) afterTx(*chainMachine, *cmTx)                 {}
func (cmBaseOracle) afterAdvance(*chainMachine, *cmSnap, *cmSnap) {}
func (cmBaseOracle) nontrivial(*chainMachine) bool                { return true }

var cmDefaultProfile = cmProfile{weights: map[string]int{
	"deployCreate": 3, "marketRound": 4, "advance": 5, "provider": 2, "audit": 2,
	"leaseClose": 2, "bidClose": 2, "deployClose": 2, "leaseWithdraw": 2, "groupStart": 2, "groupPause": 1, "groupClose": 1,
	"cert": 1, "wrongSigner": 1, "withdrawThenClose": 1, "exhaustExactly": 2,
}}

// cmRun runs the chain machine for one property.
func cmRun(t *testing.T, prop, rule string, mk func() cmOracle, prof cmProfile, withTwin bool) {
	vsInit(prop, rule)
	defer vsFlush()
	rapid.Check(t, func(t *rapid.T) {
		o := mk()
		m := newChainMachine(t, prop, o, withTwin)
		stopped := false
		defer func() {
			var labels []string
			for l := range m.labels {
				labels = append(labels, l)
			}
			sort.Strings(labels)
			vsCase(prop+"|"+strings.Join(m.ops, ";"), o.nontrivial(m), labels...)
			vsExtra("tx_total", m.txCount)
			vsExtra("tx_accepted", m.okCount)
			for k, v := range m.msgStat {
				vsExtra("accepted:"+k, v[0])
				vsExtra("rejected:"+k, v[1])
			}
		}()
		acts := m.actions(prof)
		for name, f := range acts {
			f := f
			acts[name] = func(t *rapid.T) {
				if stopped {
					return
				}
				defer func() {
					if r := recover(); r != nil {
						if kf, ok := r.(cmKnownFinding); ok {
							stopped = true
							m.label("known-finding:" + kf.key)
							return
						}
						panic(r)
					}
				}()
				f(t)
			}
		}
		func() {
			defer func() {
				if r := recover(); r != nil {
					if kf, ok := r.(cmKnownFinding); ok {
						stopped = true
						m.label("known-finding:" + kf.key)
						return
					}
					panic(r)
				}
			}()
			m.bootstrap(t)
		}()
		t.Repeat(acts)
	})
}

func cmFmtCoins(x sdk.Int) string { return x.String() }

func cmDescribe(v interface{}) string { return fmt.Sprintf("%+v", v) }
