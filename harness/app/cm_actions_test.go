package app

// Action generators of the chain machine. Every action builds ONE message from the
// current (observed) state so that most are accepted, with a minority of deliberately
// off-target variants. All random choices are rapid draws.

import (
	"crypto/ecdsa"
	"crypto/elliptic"
	"crypto/rand"
	"crypto/x509"
	"crypto/x509/pkix"
	"encoding/pem"
	"fmt"
	"math/big"
	"strings"
	"sync"
	"time"

	sdk "github.com/cosmos/cosmos-sdk/types"
	"pgregory.net/rapid"

	akashtypes "github.com/ovrclk/akash/types"
	atypes "github.com/ovrclk/akash/x/audit/types"
	ctypes "github.com/ovrclk/akash/x/cert/types"
	dtypes "github.com/ovrclk/akash/x/deployment/types"
	etypes "github.com/ovrclk/akash/x/escrow/types"
	mtypes "github.com/ovrclk/akash/x/market/types"
	ptypes "github.com/ovrclk/akash/x/provider/types"
)

var cmDSeqs = []uint64{1, 12, 256, 257, 65536, 1 << 32, 1<<64 - 1, 2}

var cmAttrKeys = []string{"region", "tier", "gpu1", "host"}
var cmAttrVals = []string{"aa", "bb"}

// attestations additionally use keys that differ from others only in capitalisation (all are
// valid attribute names; the audit module does not restrict keys at all)
var cmAuditKeys = []string{"region", "tier", "gpu1", "host", "Region", "REGION", "Tier"}

type cmBuilt struct {
	label  string
	msg    sdk.Msg
	signer *cmActor
}

func cmCoin(n int64) sdk.Coin { return sdk.NewInt64Coin(cmDenom, n) }

func (m *chainMachine) genAttrs(t *rapid.T, name string, min int) akashtypes.Attributes {
	return m.genAttrsFrom(t, name, min, 3, cmAttrKeys)
}

func (m *chainMachine) genAttrsFrom(t *rapid.T, name string, min, max int, from []string) akashtypes.Attributes {
	n := rapid.IntRange(min, max).Draw(t, name+"N")
	keys := rapid.Permutation(from).Draw(t, name+"Keys")[:n]
	var out akashtypes.Attributes
	for _, k := range sortedStrings(keys) {
		out = append(out, akashtypes.Attribute{Key: k, Value: rapid.SampledFrom(cmAttrVals).Draw(t, name+"V")})
	}
	return out
}

func sortedStrings(in []string) []string {
	out := append([]string(nil), in...)
	for i := 1; i < len(out); i++ {
		for j := i; j > 0 && out[j] < out[j-1]; j-- {
			out[j], out[j-1] = out[j-1], out[j]
		}
	}
	return out
}

func cmAttrStr(a akashtypes.Attributes) string {
	s := ""
	for _, x := range a {
		s += x.Key + "=" + x.Value + ","
	}
	return "{" + s + "}"
}

// ---- selectors over the observed state ---------------------------------------------------

func (m *chainMachine) pick(t *rapid.T, name string, n int) int {
	return rapid.IntRange(0, n-1).Draw(t, name)
}

func (m *chainMachine) offTarget(t *rapid.T) bool {
	return rapid.IntRange(0, 6).Draw(t, "offTarget") == 0
}

// ---- builders ----------------------------------------------------------------------------

func (m *chainMachine) bProvider(t *rapid.T) (cmBuilt, bool) {
	p := m.providers()[m.pick(t, "prov", 3)]
	if rapid.IntRange(0, 9).Draw(t, "tenantAsProvider") == 0 {
		p = m.tenants()[m.pick(t, "tenantProv", 3)]
	}
	attrs := m.genAttrs(t, "pattr", 0)
	_, exists := m.snap.provider(p.bech)
	create := !exists
	if m.offTarget(t) {
		create = !create
	}
	uri := "https://" + p.name + ".example.com"
	if create {
		return cmBuilt{fmt.Sprintf("CreateProvider(%s,%s)", p.name, cmAttrStr(attrs)), &ptypes.MsgCreateProvider{Owner: p.bech, HostURI: uri, Attributes: attrs}, p}, true
	}
	return cmBuilt{fmt.Sprintf("UpdateProvider(%s,%s)", p.name, cmAttrStr(attrs)), &ptypes.MsgUpdateProvider{Owner: p.bech, HostURI: uri, Attributes: attrs}, p}, true
}

func (m *chainMachine) bAudit(t *rapid.T) (cmBuilt, bool) {
	a := m.auditors()[m.pick(t, "aud", 2)]
	p := m.providers()[m.pick(t, "prov", 3)]
	var existing *atypes.Provider
	for i := range m.snap.audits {
		if m.snap.audits[i].Owner == p.bech && m.snap.audits[i].Auditor == a.bech {
			existing = &m.snap.audits[i]
		}
	}
	del := existing != nil && rapid.IntRange(0, 2).Draw(t, "delete") == 0
	if m.offTarget(t) {
		del = !del
	}
	if del {
		var keys []string
		switch rapid.IntRange(0, 2).Draw(t, "delKind") {
		case 0:
			keys = nil // delete the whole attestation
		case 1:
			if existing != nil && len(existing.Attributes) > 0 {
				n := rapid.IntRange(1, len(existing.Attributes)).Draw(t, "delN")
				for _, x := range existing.Attributes[:n] {
					keys = append(keys, x.Key)
				}
			} else {
				keys = []string{"region"}
			}
		default:
			keys = []string{rapid.SampledFrom(cmAuditKeys).Draw(t, "delKey")}
		}
		return cmBuilt{fmt.Sprintf("DeleteProviderAttributes(%s,%s,%v)", a.name, p.name, keys), &atypes.MsgDeleteProviderAttributes{Owner: p.bech, Auditor: a.bech, Keys: keys}, a}, true
	}
	attrs := m.genAttrsFrom(t, "aattr", 1, 5, cmAuditKeys)
	if existing != nil && rapid.IntRange(0, 5).Draw(t, "emptyResign") == 0 {
		attrs = nil // re-sign with an empty attribute list (accepted by ValidateBasic)
	}
	if rapid.Bool().Draw(t, "shuffleAttrs") && len(attrs) > 1 {
		attrs[0], attrs[len(attrs)-1] = attrs[len(attrs)-1], attrs[0]
	}
	return cmBuilt{fmt.Sprintf("SignProviderAttributes(%s,%s,%s)", a.name, p.name, cmAttrStr(attrs)), &atypes.MsgSignProviderAttributes{Owner: p.bech, Auditor: a.bech, Attributes: attrs}, a}, true
}

func (m *chainMachine) unitPrice(t *rapid.T) int64 {
	if m.params.depMin >= 1_000_000 {
		return rapid.SampledFrom([]int64{100_000, 250_000, 500_000, 1_000_000}).Draw(t, "unitPrice")
	}
	return int64(rapid.IntRange(1, 5).Draw(t, "unitPrice"))
}

func (m *chainMachine) genGroupSpec(t *rapid.T, name string) dtypes.GroupSpec {
	gs := dtypes.GroupSpec{Name: name}
	gs.Requirements.Attributes = m.genAttrs(t, "req", 0)
	switch rapid.IntRange(0, 4).Draw(t, "signedBy") {
	case 1:
		gs.Requirements.SignedBy.AllOf = []string{m.auditors()[m.pick(t, "allOf", 2)].bech}
	case 2:
		gs.Requirements.SignedBy.AnyOf = []string{m.auditors()[0].bech, m.auditors()[1].bech}
	case 3:
		gs.Requirements.SignedBy.AllOf = []string{m.auditors()[0].bech, m.auditors()[1].bech}
	case 4:
		gs.Requirements.SignedBy.AllOf = []string{m.auditors()[m.pick(t, "allOf", 2)].bech}
		gs.Requirements.SignedBy.AnyOf = []string{m.auditors()[m.pick(t, "anyOf", 2)].bech}
	}
	nres := rapid.IntRange(1, 2).Draw(t, "nres")
	for i := 0; i < nres; i++ {
		cpu := rapid.SampledFrom([]uint64{10, 100, 500}).Draw(t, "cpu")
		mem := rapid.SampledFrom([]uint64{1 << 20, 16 << 20}).Draw(t, "mem")
		sto := rapid.SampledFrom([]uint64{5 << 20, 64 << 20}).Draw(t, "sto")
		gs.Resources = append(gs.Resources, dtypes.Resource{
			Resources: akashtypes.ResourceUnits{
				CPU:     &akashtypes.CPU{Units: akashtypes.NewResourceValue(cpu)},
				Memory:  &akashtypes.Memory{Quantity: akashtypes.NewResourceValue(mem)},
				Storage: &akashtypes.Storage{Quantity: akashtypes.NewResourceValue(sto)},
			},
			Count: uint32(rapid.IntRange(1, 3).Draw(t, "count")),
			Price: cmCoin(m.unitPrice(t)),
		})
	}
	return gs
}

func cmVersion(n int) []byte {
	v := make([]byte, 32)
	for i := range v {
		v[i] = byte(n + i)
	}
	return v
}

func (m *chainMachine) bDeployCreate(t *rapid.T) (cmBuilt, bool) {
	ten := m.tenants()[m.pick(t, "tenant", 3)]
	dseq := rapid.SampledFrom(cmDSeqs).Draw(t, "dseq")
	if rapid.IntRange(0, 2).Draw(t, "partnerDSeq") == 0 {
		// prefer a number whose decimal spelling extends, or is extended by, one this tenant
		// already uses (escrow ids spell the number in decimal)
		var cands []uint64
		for _, d := range m.snap.deployments {
			if d.DeploymentID.Owner != ten.bech {
				// ... or the very number another account uses
				cands = append(cands, d.DeploymentID.DSeq)
				continue
			}
			for _, c := range cmDSeqs {
				a, b := fmt.Sprint(d.DeploymentID.DSeq), fmt.Sprint(c)
				if a != b && (strings.HasPrefix(a, b) || strings.HasPrefix(b, a)) {
					cands = append(cands, c)
				}
			}
		}
		if len(cands) > 0 {
			dseq = cands[m.pick(t, "partner", len(cands))]
		}
	}
	id := dtypes.DeploymentID{Owner: ten.bech, DSeq: dseq}
	spelling := ""
	if rapid.IntRange(0, 11).Draw(t, "upperCaseOwner") == 0 {
		// the same account, written in the other spelling bech32 admits
		id.Owner = strings.ToUpper(ten.bech)
		spelling = ",owner spelt in upper case"
		m.label("owner-upper-case")
	}
	ng := rapid.IntRange(1, 3).Draw(t, "ngroups")
	var groups []dtypes.GroupSpec
	for i := 0; i < ng; i++ {
		name := fmt.Sprintf("g%d", i+1)
		if i > 0 && rapid.IntRange(0, 19).Draw(t, "dupName") == 0 {
			name = "g1"
		}
		groups = append(groups, m.genGroupSpec(t, name))
	}
	dep := m.params.depMin
	switch rapid.IntRange(0, 9).Draw(t, "depositKind") {
	case 0:
		dep = m.params.depMin - 1
	case 1, 2, 3:
		dep = m.params.depMin + int64(rapid.IntRange(1, 60).Draw(t, "extra"))*maxI64(1, m.params.depMin/50)
	case 4:
		// more than the tenant owns: the bank refuses the transfer into escrow
		if b, ok := m.snap.bank[ten.bech]; ok && b.IsInt64() {
			dep = b.Int64() + 1
		}
	}
	msg := &dtypes.MsgCreateDeployment{ID: id, Groups: groups, Version: cmVersion(rapid.IntRange(0, 200).Draw(t, "ver")), Deposit: cmCoin(dep)}
	return cmBuilt{fmt.Sprintf("CreateDeployment(%s/%d,groups=%d,deposit=%d,prices=%s%s)", ten.name, dseq, ng, dep, cmGroupPrices(groups), spelling), msg, ten}, true
}

func maxI64(a, b int64) int64 {
	if a > b {
		return a
	}
	return b
}

func cmGroupPrices(gs []dtypes.GroupSpec) string {
	s := ""
	for _, g := range gs {
		s += g.Price().Amount.String() + "/"
	}
	return s
}

func (m *chainMachine) pickDeployment(t *rapid.T, wantActive bool) (dtypes.Deployment, bool) {
	var cand []dtypes.Deployment
	off := m.offTarget(t)
	for _, d := range m.snap.deployments {
		if off || !wantActive || d.State == dtypes.DeploymentActive {
			cand = append(cand, d)
		}
	}
	if len(cand) == 0 {
		return dtypes.Deployment{}, false
	}
	return cand[m.pick(t, "dep", len(cand))], true
}

func (m *chainMachine) bDeployDeposit(t *rapid.T) (cmBuilt, bool) {
	d, ok := m.pickDeployment(t, true)
	if !ok {
		return cmBuilt{}, false
	}
	amt := int64(rapid.IntRange(1, 40).Draw(t, "amount")) * maxI64(1, m.params.depMin/100)
	coin := cmCoin(amt)
	if rapid.IntRange(0, 5).Draw(t, "foreignDenom") == 0 {
		// a top-up in a denomination the depositor holds but the escrow account is not kept in
		coin = sdk.NewInt64Coin(cmDenom2, amt)
	}
	return cmBuilt{fmt.Sprintf("DepositDeployment(%s/%d,%s)", m.byAddr[d.DeploymentID.Owner].name, d.DeploymentID.DSeq, coin),
		&dtypes.MsgDepositDeployment{ID: d.DeploymentID, Amount: coin}, m.byAddr[d.DeploymentID.Owner]}, true
}

func (m *chainMachine) bDeployUpdate(t *rapid.T) (cmBuilt, bool) {
	d, ok := m.pickDeployment(t, true)
	if !ok {
		return cmBuilt{}, false
	}
	ver := cmVersion(rapid.IntRange(0, 200).Draw(t, "ver"))
	if rapid.IntRange(0, 4).Draw(t, "sameVersion") == 0 {
		ver = d.Version
	}
	var groups []dtypes.GroupSpec
	for _, g := range m.snap.groups {
		if g.GroupID.DeploymentID() == d.DeploymentID {
			groups = append(groups, g.GroupSpec)
		}
	}
	return cmBuilt{fmt.Sprintf("UpdateDeployment(%s/%d,ver=%x)", m.byAddr[d.DeploymentID.Owner].name, d.DeploymentID.DSeq, ver[:2]),
		&dtypes.MsgUpdateDeployment{ID: d.DeploymentID, Groups: groups, Version: ver}, m.byAddr[d.DeploymentID.Owner]}, true
}

func (m *chainMachine) bDeployClose(t *rapid.T) (cmBuilt, bool) {
	d, ok := m.pickDeployment(t, true)
	if !ok {
		return cmBuilt{}, false
	}
	return cmBuilt{fmt.Sprintf("CloseDeployment(%s/%d)", m.byAddr[d.DeploymentID.Owner].name, d.DeploymentID.DSeq),
		&dtypes.MsgCloseDeployment{ID: d.DeploymentID}, m.byAddr[d.DeploymentID.Owner]}, true
}

func (m *chainMachine) bGroup(t *rapid.T, kind string) (cmBuilt, bool) {
	var cand []dtypes.Group
	off := m.offTarget(t)
	for _, g := range m.snap.groups {
		ok := false
		switch kind {
		case "close":
			ok = g.State != dtypes.GroupClosed
		case "pause":
			ok = g.State == dtypes.GroupOpen
		case "start":
			ok = g.State == dtypes.GroupPaused || g.State == dtypes.GroupInsufficientFunds
		}
		if ok || off {
			cand = append(cand, g)
		}
	}
	if len(cand) == 0 {
		return cmBuilt{}, false
	}
	g := cand[m.pick(t, "group", len(cand))]
	owner := m.byAddr[g.GroupID.Owner]
	name := fmt.Sprintf("%s/%d/%d", owner.name, g.GroupID.DSeq, g.GroupID.GSeq)
	switch kind {
	case "close":
		return cmBuilt{"CloseGroup(" + name + ")", &dtypes.MsgCloseGroup{ID: g.GroupID}, owner}, true
	case "pause":
		return cmBuilt{"PauseGroup(" + name + ")", &dtypes.MsgPauseGroup{ID: g.GroupID}, owner}, true
	default:
		return cmBuilt{"StartGroup(" + name + ")", &dtypes.MsgStartGroup{ID: g.GroupID}, owner}, true
	}
}

func (m *chainMachine) bBidCreate(t *rapid.T) (cmBuilt, bool) {
	var cand []mtypes.Order
	off := m.offTarget(t)
	for _, o := range m.snap.orders {
		if off || o.State == mtypes.OrderOpen {
			cand = append(cand, o)
		}
	}
	if len(cand) == 0 {
		return cmBuilt{}, false
	}
	o := cand[m.pick(t, "order", len(cand))]
	var p *cmActor
	if rapid.IntRange(0, 14).Draw(t, "tenantBids") == 0 {
		p = m.tenants()[m.pick(t, "tenantBidder", 3)]
	} else {
		p = m.providers()[m.pick(t, "prov", 3)]
	}
	max := o.Spec.Price().Amount.Int64()
	price := max
	switch rapid.IntRange(0, 9).Draw(t, "priceKind") {
	case 0:
		price = max + 1
	case 1:
		price = 0
	case 2, 3:
		price = int64(rapid.IntRange(1, int(minI64(max, 1<<30))).Draw(t, "price"))
	case 4:
		if max > 1 {
			price = max - 1
		}
	}
	priceCoin := cmCoin(price)
	if rapid.IntRange(0, 24).Draw(t, "wrongDenom") == 0 {
		priceCoin = sdk.NewInt64Coin("stake", price)
	}
	dep := m.params.bidMin
	switch rapid.IntRange(0, 9).Draw(t, "bidDeposit") {
	case 0:
		dep = m.params.bidMin - 1
	case 1:
		dep = m.params.bidMin + int64(rapid.IntRange(1, 50).Draw(t, "extra"))
	}
	provStr, spelling := p.bech, ""
	if rapid.IntRange(0, 7).Draw(t, "upperCaseAddress") == 0 {
		provStr, spelling = strings.ToUpper(p.bech), ",UPPER-CASE address"
	}
	return cmBuilt{fmt.Sprintf("CreateBid(%s/%d/%d/%d,%s%s,price=%s,deposit=%d)", m.byAddr[o.OrderID.Owner].name, o.OrderID.DSeq, o.OrderID.GSeq, o.OrderID.OSeq, p.name, spelling, priceCoin, dep),
		&mtypes.MsgCreateBid{Order: o.OrderID, Provider: provStr, Price: priceCoin, Deposit: cmCoin(dep)}, p}, true
}

func minI64(a, b int64) int64 {
	if a < b {
		return a
	}
	return b
}

func (m *chainMachine) bidName(b mtypes.BidID) string {
	pn := b.Provider
	if a, ok := m.byAddr[b.Provider]; ok {
		pn = a.name
	}
	on := b.Owner
	if a, ok := m.byAddr[b.Owner]; ok {
		on = a.name
	}
	return fmt.Sprintf("%s/%d/%d/%d/%s", on, b.DSeq, b.GSeq, b.OSeq, pn)
}

func (m *chainMachine) pickBid(t *rapid.T, states ...mtypes.Bid_State) (mtypes.Bid, bool) {
	var cand []mtypes.Bid
	off := m.offTarget(t)
	for _, b := range m.snap.bids {
		ok := off
		for _, s := range states {
			if b.State == s {
				ok = true
			}
		}
		if ok {
			cand = append(cand, b)
		}
	}
	if len(cand) == 0 {
		return mtypes.Bid{}, false
	}
	return cand[m.pick(t, "bid", len(cand))], true
}

func (m *chainMachine) bBidClose(t *rapid.T) (cmBuilt, bool) {
	b, ok := m.pickBid(t, mtypes.BidOpen, mtypes.BidActive)
	if !ok {
		return cmBuilt{}, false
	}
	return cmBuilt{"CloseBid(" + m.bidName(b.BidID) + ")", &mtypes.MsgCloseBid{BidID: b.BidID}, m.byAddr[b.BidID.Provider]}, true
}

func (m *chainMachine) bLeaseCreate(t *rapid.T) (cmBuilt, bool) {
	b, ok := m.pickBid(t, mtypes.BidOpen)
	if !ok {
		return cmBuilt{}, false
	}
	return cmBuilt{"CreateLease(" + m.bidName(b.BidID) + ")", &mtypes.MsgCreateLease{BidID: b.BidID}, m.byAddr[b.BidID.Owner]}, true
}

func (m *chainMachine) pickLease(t *rapid.T) (mtypes.Lease, bool) {
	var cand []mtypes.Lease
	off := m.offTarget(t)
	for _, l := range m.snap.leases {
		if off || l.State == mtypes.LeaseActive {
			cand = append(cand, l)
		}
	}
	if len(cand) == 0 {
		return mtypes.Lease{}, false
	}
	return cand[m.pick(t, "lease", len(cand))], true
}

func (m *chainMachine) bLeaseClose(t *rapid.T) (cmBuilt, bool) {
	l, ok := m.pickLease(t)
	if !ok {
		return cmBuilt{}, false
	}
	return cmBuilt{"CloseLease(" + m.bidName(mtypes.BidID(l.LeaseID)) + ")", &mtypes.MsgCloseLease{LeaseID: l.LeaseID}, m.byAddr[l.LeaseID.Owner]}, true
}

func (m *chainMachine) bLeaseWithdraw(t *rapid.T) (cmBuilt, bool) {
	l, ok := m.pickLease(t)
	if !ok {
		return cmBuilt{}, false
	}
	return cmBuilt{"WithdrawLease(" + m.bidName(mtypes.BidID(l.LeaseID)) + ")", &mtypes.MsgWithdrawLease{LeaseID: l.LeaseID}, m.byAddr[l.LeaseID.Provider]}, true
}

// ---- certificates (pre-generated pool, generation is not part of the case) ----------------

type cmCertPEM struct {
	serial string
	cert   []byte
	pub    []byte
}

var cmCertPoolOnce sync.Once
var cmCertPool map[string][]cmCertPEM // actor bech32 -> certs

var cmCertSerials = []string{"0", "1", "255", "256", "65536", "18446744073709551616"}

func cmMakeCert(cn string, serial *big.Int) cmCertPEM {
	return cmMakeCertValid(cn, serial, time.Now().Add(-time.Hour), time.Now().Add(365*24*time.Hour))
}

func cmMakeCertValid(cn string, serial *big.Int, notBefore, notAfter time.Time) cmCertPEM {
	priv, err := ecdsa.GenerateKey(elliptic.P256(), rand.Reader)
	if err != nil {
		panic(err)
	}
	tmpl := x509.Certificate{
		SerialNumber:          serial,
		Subject:               pkix.Name{CommonName: cn},
		Issuer:                pkix.Name{CommonName: cn},
		NotBefore:             notBefore,
		NotAfter:              notAfter,
		KeyUsage:              x509.KeyUsageDataEncipherment | x509.KeyUsageKeyEncipherment,
		ExtKeyUsage:           []x509.ExtKeyUsage{x509.ExtKeyUsageClientAuth},
		BasicConstraintsValid: true,
	}
	der, err := x509.CreateCertificate(rand.Reader, &tmpl, &tmpl, priv.Public(), priv)
	if err != nil {
		panic(err)
	}
	pubDer, err := x509.MarshalPKIXPublicKey(priv.Public())
	if err != nil {
		panic(err)
	}
	return cmCertPEM{
		serial: serial.String(),
		cert:   pem.EncodeToMemory(&pem.Block{Type: ctypes.PemBlkTypeCertificate, Bytes: der}),
		pub:    pem.EncodeToMemory(&pem.Block{Type: ctypes.PemBlkTypeECPublicKey, Bytes: pubDer}),
	}
}

func cmCerts(actors []*cmActor) map[string][]cmCertPEM {
	cmCertPoolOnce.Do(func() {
		cmCertPool = map[string][]cmCertPEM{}
		for _, a := range actors {
			for _, s := range cmCertSerials {
				n, _ := new(big.Int).SetString(s, 10)
				cmCertPool[a.bech] = append(cmCertPool[a.bech], cmMakeCert(a.bech, n))
			}
		}
	})
	return cmCertPool
}

func (m *chainMachine) bCert(t *rapid.T) (cmBuilt, bool) {
	a := m.actors[m.pick(t, "certOwner", len(m.actors))]
	pool := cmCerts(m.actors)[a.bech]
	c := pool[m.pick(t, "cert", len(pool))]
	if rapid.IntRange(0, 2).Draw(t, "revoke") == 0 {
		return cmBuilt{fmt.Sprintf("RevokeCertificate(%s,%s)", a.name, c.serial), &ctypes.MsgRevokeCertificate{ID: ctypes.CertificateID{Owner: a.bech, Serial: c.serial}}, a}, true
	}
	if rapid.IntRange(0, 9).Draw(t, "foreignCert") == 0 {
		// certificate naming somebody else: must be rejected
		other := m.actors[(m.pick(t, "other", len(m.actors)-1)+1+indexOfActor(m.actors, a))%len(m.actors)]
		oc := cmCerts(m.actors)[other.bech][0]
		return cmBuilt{fmt.Sprintf("CreateCertificate(%s,certOf=%s)", a.name, other.name), &ctypes.MsgCreateCertificate{Owner: a.bech, Cert: oc.cert, Pubkey: oc.pub}, a}, true
	}
	if rapid.IntRange(0, 7).Draw(t, "expiringCert") == 0 {
		// a certificate whose validity ends at the next full second of the wall clock: the chain
		// has no business looking at the wall clock, so executing the transaction before and
		// after that instant must give the same result (C07 waits across it between two runs)
		n, _ := new(big.Int).SetString(c.serial, 10)
		ec := cmMakeCertValid(a.bech, n, time.Now().Add(-time.Hour), time.Now().Truncate(time.Second).Add(time.Second))
		return cmBuilt{fmt.Sprintf("CreateCertificate(%s,%s,expires-within-1s)", a.name, c.serial), &ctypes.MsgCreateCertificate{Owner: a.bech, Cert: ec.cert, Pubkey: ec.pub}, a}, true
	}
	return cmBuilt{fmt.Sprintf("CreateCertificate(%s,%s)", a.name, c.serial), &ctypes.MsgCreateCertificate{Owner: a.bech, Cert: c.cert, Pubkey: c.pub}, a}, true
}

func indexOfActor(as []*cmActor, a *cmActor) int {
	for i, x := range as {
		if x == a {
			return i
		}
	}
	return 0
}

// ---- advance ---------------------------------------------------------------------------------

const cmMaxGap = 120

// exhaustionGaps returns block gaps at which some open deployment account with open
// payments is exactly exhausted / just overdrawn, computed from the observed records.
func (m *chainMachine) exhaustionGaps() []int64 {
	var out []int64
	for _, a := range m.snap.accounts {
		if a.State != etypes.AccountOpen {
			continue
		}
		rate := sdk.ZeroInt()
		for _, p := range m.snap.payments {
			if p.AccountID == a.ID && p.State == etypes.PaymentOpen {
				rate = rate.Add(p.Rate.Amount)
			}
		}
		if !rate.IsPositive() {
			continue
		}
		k := a.Balance.Amount.Quo(rate)
		if !k.IsInt64() || k.Int64() > 1_000_000 {
			continue
		}
		target := a.SettledAt + k.Int64()
		for _, d := range []int64{-1, 0, 1} {
			g := target + d - m.height
			if g >= 1 && g <= cmMaxGap {
				out = append(out, g)
			}
		}
	}
	return out
}

func (m *chainMachine) aAdvance(t *rapid.T) {
	gaps := m.exhaustionGaps()
	var g int64
	if len(gaps) > 0 && rapid.IntRange(0, 2).Draw(t, "toExhaustion") > 0 {
		g = gaps[m.pick(t, "exGap", len(gaps))]
		m.label("advance:to-exhaustion")
	} else {
		g = rapid.SampledFrom([]int64{1, 1, 1, 2, 3, 5, 10, 25}).Draw(t, "gap")
	}
	m.advance(g)
	// sometimes the first transaction to reach an account that ran dry during the gap is the
	// tenant's top-up (rather than a withdrawal or a close)
	if due := m.overdueAccounts(); len(due) > 0 && rapid.IntRange(0, 7).Draw(t, "lateTopUp") == 0 {
		a := due[m.pick(t, "overdue", len(due))]
		if dd, ok := m.snap.deploymentOfAccount(a.ID); ok {
			did := dd.DeploymentID
			if tenant, ok := m.byAddr[did.Owner]; ok {
				add := cmCoin(int64(rapid.IntRange(1, 40).Draw(t, "lateAmount")) * maxI64(1, m.params.depMin/100))
				m.label("late-deposit-first-to-settle")
				m.deliver(fmt.Sprintf("DepositDeployment(%s/%d,%s)[first transaction after the account ran dry]", tenant.name, did.DSeq, add), &dtypes.MsgDepositDeployment{ID: did, Amount: add}, tenant)
			}
		}
	}
}

// overdueAccounts: deployment accounts still recorded as open whose open payments have, at the
// current height, consumed more than the recorded balance (nothing has settled them yet).
func (m *chainMachine) overdueAccounts() []etypes.Account {
	var out []etypes.Account
	for _, a := range m.snap.accounts {
		if a.State != etypes.AccountOpen || a.ID.Scope != dtypes.EscrowScope {
			continue
		}
		rate := sdk.ZeroInt()
		for _, p := range m.snap.payments {
			if p.AccountID == a.ID && p.State == etypes.PaymentOpen {
				rate = rate.Add(p.Rate.Amount)
			}
		}
		if rate.IsPositive() && rate.MulRaw(m.height-a.SettledAt).GT(a.Balance.Amount) {
			out = append(out, a)
		}
	}
	return out
}

// ---- the action table ------------------------------------------------------------------------

type cmBuilder func(*rapid.T) (cmBuilt, bool)

func (m *chainMachine) builders() map[string]cmBuilder {
	return map[string]cmBuilder{
		"provider":      m.bProvider,
		"audit":         m.bAudit,
		"deployCreate":  m.bDeployCreate,
		"deployDeposit": m.bDeployDeposit,
		"deployUpdate":  m.bDeployUpdate,
		"deployClose":   m.bDeployClose,
		"groupClose":    func(t *rapid.T) (cmBuilt, bool) { return m.bGroup(t, "close") },
		"groupPause":    func(t *rapid.T) (cmBuilt, bool) { return m.bGroup(t, "pause") },
		"groupStart":    func(t *rapid.T) (cmBuilt, bool) { return m.bGroup(t, "start") },
		"bidCreate":     m.bBidCreate,
		"bidClose":      m.bBidClose,
		"leaseCreate":   m.bLeaseCreate,
		"leaseClose":    m.bLeaseClose,
		"leaseWithdraw": m.bLeaseWithdraw,
		"cert":          m.bCert,
	}
}

var cmBuilderNames = []string{"provider", "audit", "deployCreate", "deployDeposit", "deployUpdate", "deployClose", "groupClose", "groupPause",
	"groupStart", "bidCreate", "bidClose", "leaseCreate", "leaseClose", "leaseWithdraw", "cert"}

type cmProfile struct {
	// weights: how many aliases of an action are registered (rapid picks uniformly among keys)
	weights map[string]int
	steps   int
}

func (m *chainMachine) actions(prof cmProfile) map[string]func(*rapid.T) {
	bs := m.builders()
	acts := map[string]func(*rapid.T){}
	add := func(name string, f func(*rapid.T)) {
		w := 1
		if prof.weights != nil {
			if x, ok := prof.weights[name]; ok {
				w = x
			}
		}
		for i := 0; i < w; i++ {
			acts[fmt.Sprintf("%s#%d", name, i)] = f
		}
	}
	for _, name := range cmBuilderNames {
		b := bs[name]
		add(name, func(t *rapid.T) {
			built, ok := b(t)
			if !ok {
				t.Skip("no target")
			}
			// either of the two routes the application offers for the same request: the legacy
			// message router or the protobuf Msg service router
			if rapid.IntRange(0, 3).Draw(t, "msgServiceRoute") == 0 {
				m.svcRoute = true
				defer func() { m.svcRoute = false }()
				built.label += " [Msg service route]"
				m.label("msg-service-route")
			}
			m.deliver(built.label, built.msg, built.signer)
		})
	}
	add("wrongSigner", func(t *rapid.T) {
		name := rapid.SampledFrom(cmBuilderNames).Draw(t, "twinOf")
		built, ok := bs[name](t)
		if !ok {
			t.Skip("no target")
		}
		idx := indexOfActor(m.actors, built.signer)
		other := m.actors[(idx+1+m.pick(t, "otherSigner", len(m.actors)-1))%len(m.actors)]
		tx := m.deliverTwin(built, other)
		_ = tx
	})
	add("failingBatch", func(t *rapid.T) {
		// a transaction of two messages by one signer whose second message always fails (it closes
		// a deployment that does not exist): the whole transaction is rolled back, so whatever the
		// first message did - in the stores or anywhere else - must be gone
		name := rapid.SampledFrom(cmBuilderNames).Draw(t, "batchOf")
		built, ok := bs[name](t)
		if !ok {
			t.Skip("no target")
		}
		poison := &dtypes.MsgCloseDeployment{ID: dtypes.DeploymentID{Owner: built.signer.bech, DSeq: 987654321}}
		tx := m.deliver(built.label+" + CloseDeployment(nonexistent) [one transaction]", built.msg, built.signer, poison)
		if tx.ok {
			m.fatalf("batch-not-atomic", "%s succeeded although its second message names a deployment that does not exist", tx.label)
		}
		if d := cmRawDiff(tx.pre, tx.post); len(d) > 0 {
			m.fatalf("batch-not-atomic", "%s failed but changed state: %v", tx.label, d)
		}
		m.label("failed-two-message-transaction")
	})
	add("advance", m.aAdvance)
	add("marketRound", m.aMarketRound)
	add("withdrawThenClose", m.aWithdrawThenClose)
	add("exhaustExactly", m.aExhaustExactly)
	if prof.weights != nil && prof.weights["leaseChurn"] > 0 {
		add("leaseChurn", m.aLeaseChurn)
	}
	if prof.weights != nil && prof.weights["boundaryDeploy"] > 0 {
		add("boundaryDeploy", m.aBoundaryDeploy)
	}
	if prof.weights != nil && prof.weights["nearMissBid"] > 0 {
		add("nearMissBid", m.aNearMissBid)
	}
	if prof.weights != nil && prof.weights["govParamChange"] > 0 {
		add("govParamChange", m.aGovParamChange)
	}
	acts[""] = func(t *rapid.T) {}
	return acts
}

// aGovParamChange changes a minimum-deposit parameter the way an executed governance proposal
// does: by writing the module's parameter subspace (not through the module keeper).
func (m *chainMachine) aGovParamChange(t *rapid.T) {
	dep := rapid.Bool().Draw(t, "deploymentParam")
	old := m.params.bidMin
	if dep {
		old = m.params.depMin
	}
	nv := old
	switch rapid.IntRange(0, 3).Draw(t, "change") {
	case 0:
		nv = old * 2
	case 1:
		nv = old + 1
	case 2:
		nv = maxI64(1, old/2)
	default:
		nv = maxI64(1, old-1)
	}
	apply := func(a *AkashApp) {
		ctx := a.BaseApp.NewContext(false, m.header)
		if dep {
			ss, ok := a.keeper.params.GetSubspace(dtypes.ModuleName)
			if !ok {
				panic("no deployment param subspace")
			}
			ss.Set(ctx, []byte("DeploymentMinDeposit"), cmCoin(nv))
		} else {
			ss, ok := a.keeper.params.GetSubspace(mtypes.ModuleName)
			if !ok {
				panic("no market param subspace")
			}
			ss.Set(ctx, []byte("BidMinDeposit"), cmCoin(nv))
		}
	}
	apply(m.app)
	if m.twin != nil {
		apply(m.twin)
	}
	if dep {
		m.params.depMin = nv
		m.logop("gov: DeploymentMinDeposit %d -> %d", old, nv)
	} else {
		m.params.bidMin = nv
		m.logop("gov: BidMinDeposit %d -> %d", old, nv)
	}
	m.label("gov-param-change")
}

// deliverTwin delivers built.msg signed by somebody other than its required signer.
func (m *chainMachine) deliverTwin(built cmBuilt, other *cmActor) *cmTx {
	pre := m.snap
	m.oracle.beforeTx(m, built.msg, other)
	txb := m.signTx(built.msg, other)
	resp := m.app.DeliverTx(abciReq(txb))
	if m.twin != nil {
		m.twin.DeliverTx(abciReq(txb))
	}
	acc := m.app.keeper.acct.GetAccount(m.ctx(), other.addr)
	other.seq = acc.GetSequence()
	post := m.snapshot()
	m.snap = post
	tx := &cmTx{msg: built.msg, signer: other, label: built.label, resp: resp, pre: pre, post: post, height: m.height, ok: resp.Code == 0, twin: true}
	m.txCount++
	m.logop("h%d %s signed by WRONG signer %s -> code %d", m.height, built.label, other.name, resp.Code)
	m.label("wrong-signer")
	m.trackHistory(tx)
	m.oracle.afterTx(m, tx)
	return tx
}

// aMarketRound: constructive macro — take an open order, let 1-2 providers bid at or
// below the maximum and (usually) let the tenant accept one bid.
func (m *chainMachine) aMarketRound(t *rapid.T) {
	var cand []mtypes.Order
	for _, o := range m.snap.orders {
		if o.State == mtypes.OrderOpen {
			cand = append(cand, o)
		}
	}
	if len(cand) == 0 {
		t.Skip("no open order")
	}
	o := cand[m.pick(t, "order", len(cand))]
	nb := rapid.IntRange(1, 2).Draw(t, "nbids")
	provs := rapid.Permutation([]int{0, 1, 2}).Draw(t, "provs")
	var placed []mtypes.BidID
	for i := 0; i < nb; i++ {
		p := m.providers()[provs[i]]
		if _, ok := m.snap.provider(p.bech); !ok {
			attrs := o.Spec.Requirements.Attributes
			m.deliver(fmt.Sprintf("CreateProvider(%s,%s)", p.name, cmAttrStr(attrs)), &ptypes.MsgCreateProvider{Owner: p.bech, HostURI: "https://" + p.name + ".example.com", Attributes: attrs}, p)
		}
		// make the provider eligible when auditors are required (most of the time)
		if rapid.IntRange(0, 4).Draw(t, "attest") > 0 {
			auds := append(append([]string{}, o.Spec.Requirements.SignedBy.AllOf...), o.Spec.Requirements.SignedBy.AnyOf...)
			for _, ab := range auds {
				if a, ok := m.byAddr[ab]; ok && len(o.Spec.Requirements.Attributes) > 0 {
					m.deliver(fmt.Sprintf("SignProviderAttributes(%s,%s,%s)", a.name, p.name, cmAttrStr(o.Spec.Requirements.Attributes)),
						&atypes.MsgSignProviderAttributes{Owner: p.bech, Auditor: a.bech, Attributes: o.Spec.Requirements.Attributes}, a)
				}
			}
		}
		max := o.Spec.Price().Amount.Int64()
		price := max
		if max > 1 && rapid.Bool().Draw(t, "lower") {
			price = int64(rapid.IntRange(1, int(minI64(max, 1<<30))).Draw(t, "price"))
		}
		tx := m.deliver(fmt.Sprintf("CreateBid(%s,%s,price=%d)", m.bidName(mtypes.MakeBidID(o.OrderID, p.addr)), p.name, price),
			&mtypes.MsgCreateBid{Order: o.OrderID, Provider: p.bech, Price: cmCoin(price), Deposit: cmCoin(m.params.bidMin)}, p)
		if tx.ok {
			placed = append(placed, mtypes.MakeBidID(o.OrderID, p.addr))
		}
	}
	if len(placed) > 0 && rapid.IntRange(0, 5).Draw(t, "accept") > 0 {
		if rapid.IntRange(0, 3).Draw(t, "gapBeforeLease") == 0 {
			m.advance(1)
		}
		b := placed[m.pick(t, "winner", len(placed))]
		m.deliver("CreateLease("+m.bidName(b)+")", &mtypes.MsgCreateLease{BidID: b}, m.byAddr[b.Owner])
	}
}

// aLeaseChurn: constructive macro for leases with a higher order sequence number next to
// first-order leases of sibling groups held by the same provider - the tenant ends a lease, the
// group's fresh order is taken by the same provider again, optionally after that provider took
// the other open orders of the deployment as well, and optionally the new lease is ended too.
func (m *chainMachine) aLeaseChurn(t *rapid.T) {
	var cand []mtypes.Lease
	for _, l := range m.snap.leases {
		if l.State == mtypes.LeaseActive {
			cand = append(cand, l)
		}
	}
	if len(cand) == 0 {
		t.Skip("no active lease")
	}
	l := cand[m.pick(t, "lease", len(cand))]
	prov, ten := m.byAddr[l.LeaseID.Provider], m.byAddr[l.LeaseID.Owner]
	if prov == nil || ten == nil {
		t.Skip("unknown party")
	}
	take := func(o mtypes.Order) bool {
		tx := m.deliver(fmt.Sprintf("CreateBid(%s,%s,price=max)", m.bidName(mtypes.MakeBidID(o.OrderID, prov.addr)), prov.name),
			&mtypes.MsgCreateBid{Order: o.OrderID, Provider: prov.bech, Price: o.Spec.Price(), Deposit: cmCoin(m.params.bidMin)}, prov)
		if !tx.ok {
			return false
		}
		b := mtypes.MakeBidID(o.OrderID, prov.addr)
		return m.deliver("CreateLease("+m.bidName(b)+")", &mtypes.MsgCreateLease{BidID: b}, ten).ok
	}
	if rapid.Bool().Draw(t, "siblingsFirst") {
		for _, o := range m.snap.orders {
			if o.State == mtypes.OrderOpen && o.OrderID.GroupID().DeploymentID() == l.LeaseID.DeploymentID() && o.OrderID.GSeq != l.LeaseID.GSeq {
				take(o)
			}
		}
	}
	name := m.bidName(mtypes.BidID(l.LeaseID))
	if !m.deliver("CloseLease("+name+")", &mtypes.MsgCloseLease{LeaseID: l.LeaseID}, ten).ok {
		return
	}
	m.label("lease-churn")
	if g := rapid.IntRange(0, 2).Draw(t, "gapBeforeReLease"); g > 0 {
		m.advance(int64(g))
	}
	for _, o := range m.snap.orders {
		if o.State == mtypes.OrderOpen && o.OrderID.GroupID() == l.LeaseID.GroupID() {
			if take(o) {
				m.label("re-leased-by-same-provider")
				if rapid.Bool().Draw(t, "endAgain") {
					nl := mtypes.MakeLeaseID(mtypes.MakeBidID(o.OrderID, prov.addr))
					if g := rapid.IntRange(0, 2).Draw(t, "gapBeforeEnd"); g > 0 {
						m.advance(int64(g))
					}
					m.deliver("CloseLease("+m.bidName(mtypes.BidID(nl))+")", &mtypes.MsgCloseLease{LeaseID: nl}, ten)
				}
			}
			break
		}
	}
}

// aWithdrawThenClose: constructive macro for "nothing is owed at that moment" — the
// provider withdraws (which settles the account in this block) and then, in the same
// block, the lease is ended by the tenant, the provider, or by closing the deployment.
func (m *chainMachine) aWithdrawThenClose(t *rapid.T) {
	var cand []mtypes.Lease
	for _, l := range m.snap.leases {
		if l.State == mtypes.LeaseActive {
			cand = append(cand, l)
		}
	}
	if len(cand) == 0 {
		t.Skip("no active lease")
	}
	l := cand[m.pick(t, "lease", len(cand))]
	name := m.bidName(mtypes.BidID(l.LeaseID))
	switch rapid.IntRange(0, 4).Draw(t, "withdrawFirst") {
	case 0:
	case 1:
		// the withdrawal is part of a transaction that fails as a whole (its second message closes
		// a deployment that does not exist): it is rolled back, and the close below - in the same
		// block - has to settle as if it had never run
		prov := m.byAddr[l.LeaseID.Provider]
		poison := &dtypes.MsgCloseDeployment{ID: dtypes.DeploymentID{Owner: prov.bech, DSeq: 987654321}}
		m.deliver("WithdrawLease("+name+") + CloseDeployment(nonexistent) [one transaction]", &mtypes.MsgWithdrawLease{LeaseID: l.LeaseID}, prov, poison)
		m.label("rolled-back-withdrawal-then-close")
	default:
		m.deliver("WithdrawLease("+name+")", &mtypes.MsgWithdrawLease{LeaseID: l.LeaseID}, m.byAddr[l.LeaseID.Provider])
	}
	switch rapid.IntRange(0, 3).Draw(t, "closeHow") {
	case 0:
		m.deliver("CloseLease("+name+")", &mtypes.MsgCloseLease{LeaseID: l.LeaseID}, m.byAddr[l.LeaseID.Owner])
	case 1:
		m.deliver("CloseBid("+name+")", &mtypes.MsgCloseBid{BidID: mtypes.BidID(l.LeaseID)}, m.byAddr[l.LeaseID.Provider])
	case 2:
		did := l.LeaseID.DeploymentID()
		m.deliver(fmt.Sprintf("CloseDeployment(%s/%d)", m.byAddr[did.Owner].name, did.DSeq), &dtypes.MsgCloseDeployment{ID: did}, m.byAddr[did.Owner])
	default:
		gid := l.LeaseID.GroupID()
		m.deliver(fmt.Sprintf("CloseGroup(%s/%d/%d)", m.byAddr[gid.Owner].name, gid.DSeq, gid.GSeq), &dtypes.MsgCloseGroup{ID: gid}, m.byAddr[gid.Owner])
	}
}

// bootstrap: constructive prelude so that most histories contain deployments and leases.
func (m *chainMachine) bootstrap(t *rapid.T) {
	n := rapid.IntRange(0, 2).Draw(t, "bootstrapDeployments")
	for i := 0; i < n; i++ {
		if b, ok := m.bDeployCreate(t); ok {
			m.deliver(b.label, b.msg, b.signer)
		}
	}
	r := rapid.IntRange(0, 2).Draw(t, "bootstrapRounds")
	for i := 0; i < r; i++ {
		open := false
		for _, o := range m.snap.orders {
			if o.State == mtypes.OrderOpen {
				open = true
			}
		}
		if open {
			m.aMarketRound(t)
		}
	}
}

// aNearMissBid (C08): take an open order that requires auditors, make a provider exactly
// eligible and then (usually) break one thing: one all-of auditor missing, one attribute
// missing or different, no any-of auditor; then bid with a valid price and deposit.
func (m *chainMachine) aNearMissBid(t *rapid.T) {
	var cand []mtypes.Order
	for _, o := range m.snap.orders {
		if o.State == mtypes.OrderOpen && (len(o.Spec.Requirements.SignedBy.AllOf) > 0 || len(o.Spec.Requirements.SignedBy.AnyOf) > 0) {
			cand = append(cand, o)
		}
	}
	if len(cand) == 0 {
		t.Skip("no open order with auditor requirements")
	}
	o := cand[m.pick(t, "order", len(cand))]
	p := m.providers()[m.pick(t, "prov", 3)]
	req := o.Spec.Requirements
	if _, ok := m.snap.provider(p.bech); !ok {
		m.deliver(fmt.Sprintf("CreateProvider(%s,%s)", p.name, cmAttrStr(req.Attributes)), &ptypes.MsgCreateProvider{Owner: p.bech, HostURI: "https://" + p.name + ".example.com", Attributes: req.Attributes}, p)
	}
	defect := rapid.IntRange(0, 5).Draw(t, "defect") // 0: none
	auds := map[string]bool{}
	var order []string
	for _, a := range append(append([]string{}, req.SignedBy.AllOf...), req.SignedBy.AnyOf...) {
		if !auds[a] {
			auds[a] = true
			order = append(order, a)
		}
	}
	victim := order[m.pick(t, "victim", len(order))]
	for _, ab := range order {
		a := m.byAddr[ab]
		// start from a clean attestation so that the defect is real
		for _, ex := range m.snap.audits {
			if ex.Owner == p.bech && ex.Auditor == ab {
				m.deliver(fmt.Sprintf("DeleteProviderAttributes(%s,%s,all)", a.name, p.name), &atypes.MsgDeleteProviderAttributes{Owner: p.bech, Auditor: ab}, a)
			}
		}
		attrs := append(akashtypes.Attributes{}, req.Attributes...)
		// always add an unrelated attribute so that an attestation exists even for empty requirements
		attrs = append(attrs, akashtypes.Attribute{Key: "zone", Value: "zz"})
		if ab == victim {
			switch defect {
			case 1:
				continue // this auditor signs nothing
			case 2:
				if len(req.Attributes) > 0 {
					attrs = attrs[1:] // one required attribute missing
				}
			case 3:
				if len(req.Attributes) > 0 {
					attrs[0].Value = "other" // same key, different value
				}
			}
		} else if defect == 4 {
			continue // only the victim signs (breaks all-of with two auditors)
		}
		m.deliver(fmt.Sprintf("SignProviderAttributes(%s,%s,%s)", a.name, p.name, cmAttrStr(attrs)), &atypes.MsgSignProviderAttributes{Owner: p.bech, Auditor: ab, Attributes: attrs}, a)
	}
	max := o.Spec.Price().Amount.Int64()
	m.label(fmt.Sprintf("near-miss-defect-%d", defect))
	m.deliver(fmt.Sprintf("CreateBid(%s,%s,price=%d)[near-miss %d]", m.bidName(mtypes.MakeBidID(o.OrderID, p.addr)), p.name, max, defect),
		&mtypes.MsgCreateBid{Order: o.OrderID, Provider: p.bech, Price: cmCoin(max), Deposit: cmCoin(m.params.bidMin)}, p)
}

// aExhaustExactly: constructive macro for "the balance hits zero exactly": top the
// deployment account up to a multiple of its total rate, advance to the block where it
// is exactly exhausted, let a provider withdraw there (account open with balance 0,
// payment balance 0), advance a little and trigger one more settlement.
func (m *chainMachine) aExhaustExactly(t *rapid.T) {
	type cand struct {
		acc  etypes.Account
		rate sdk.Int
		pays []etypes.Payment
	}
	var cands []cand
	for _, a := range m.snap.accounts {
		if a.State != etypes.AccountOpen || a.ID.Scope != dtypes.EscrowScope {
			continue
		}
		c := cand{acc: a, rate: sdk.ZeroInt()}
		for _, p := range m.snap.payments {
			if p.AccountID == a.ID && p.State == etypes.PaymentOpen {
				c.rate = c.rate.Add(p.Rate.Amount)
				c.pays = append(c.pays, p)
			}
		}
		if c.rate.IsPositive() {
			cands = append(cands, c)
		}
	}
	if len(cands) == 0 {
		t.Skip("no funded account with open payments")
	}
	c := cands[m.pick(t, "account", len(cands))]
	dd, ok := m.snap.deploymentOfAccount(c.acc.ID)
	if !ok {
		t.Skip("not a deployment account")
	}
	did := dd.DeploymentID
	tenant := m.byAddr[did.Owner]
	// what will be left at the current height after settling
	elapsed := sdk.NewInt(m.height - c.acc.SettledAt)
	bal := c.acc.Balance.Amount.Sub(c.rate.Mul(elapsed))
	if !bal.IsPositive() {
		t.Skip("already exhausted")
	}
	if rem := bal.Mod(c.rate); !rem.IsZero() && rapid.IntRange(0, 3).Draw(t, "topUp") > 0 {
		add := c.rate.Sub(rem)
		m.deliver(fmt.Sprintf("DepositDeployment(%s/%d,%s)[to a multiple of the rate]", tenant.name, did.DSeq, add), &dtypes.MsgDepositDeployment{ID: did, Amount: sdk.NewCoin(cmDenom, add)}, tenant)
		bal = bal.Add(add)
	}
	k := bal.Quo(c.rate)
	if !k.IsInt64() || k.Int64() < 1 || k.Int64() > cmMaxGap {
		t.Skip("exhaustion too far away")
	}
	m.label("exhaust-exactly")
	m.advance(k.Int64())
	p := c.pays[m.pick(t, "payee", len(c.pays))]
	ll, ok := m.snap.leaseOfPayment(p.AccountID, p.PaymentID)
	if !ok {
		return
	}
	lid := ll.LeaseID
	name := m.bidName(mtypes.BidID(lid))
	if rapid.IntRange(0, 3).Draw(t, "withdrawAtZero") > 0 {
		m.deliver("WithdrawLease("+name+")[at exact exhaustion]", &mtypes.MsgWithdrawLease{LeaseID: lid}, m.byAddr[lid.Provider])
	}
	if g := rapid.IntRange(0, 2).Draw(t, "afterGap"); g > 0 {
		m.advance(int64(g))
	}
	switch rapid.IntRange(0, 4).Draw(t, "trigger") {
	case 0:
		m.deliver("WithdrawLease("+name+")", &mtypes.MsgWithdrawLease{LeaseID: lid}, m.byAddr[lid.Provider])
	case 4:
		// the tenant's late top-up is the first transaction to reach the account after the gap
		add := c.rate.MulRaw(int64(rapid.IntRange(1, 50).Draw(t, "lateTopUpBlocks")))
		m.label("late-deposit-first-to-settle")
		m.deliver(fmt.Sprintf("DepositDeployment(%s/%d,%s)[first transaction after the gap]", tenant.name, did.DSeq, add), &dtypes.MsgDepositDeployment{ID: did, Amount: sdk.NewCoin(cmDenom, add)}, tenant)
	case 1:
		m.deliver("CloseLease("+name+")", &mtypes.MsgCloseLease{LeaseID: lid}, tenant)
	case 2:
		m.deliver(fmt.Sprintf("CloseDeployment(%s/%d)", tenant.name, did.DSeq), &dtypes.MsgCloseDeployment{ID: did}, tenant)
	default:
		m.deliver("CloseBid("+name+")", &mtypes.MsgCloseBid{BidID: mtypes.BidID(lid)}, m.byAddr[lid.Provider])
	}
}
