# Per-property configuration of bin/check. One entry per property; "units" are
# (package, test regex) pairs run with rapid flags; values may be {"quick":..,"thorough":..}.
DEFAULT_SEED = 20261002

Q, T = "quick", "thorough"

PENDING = {}

def chain(pid, checks_q, checks_t, steps=100, shards_t=16, floor=0.3, **kw):
    d = {
        "level": "exploration",
        "floor": floor,
        "units": [{"pkg": "app", "run": "^TestVerif_%s$" % pid, "checks": {Q: checks_q, T: checks_t}, "shards": {Q: 4, T: shards_t},
                   "steps": steps, "timeout": {Q: 600, T: 3000}, "shrinktime": "60s"}],
        "assumptions": [
            "the application is driven through InitChain/BeginBlock/DeliverTx/EndBlock/Commit in one process on a MemDB; no Tendermint consensus, no CheckTx/mempool",
            "3 tenants, 3 providers, 2 auditors, 1 outsider; fees are zero; block gaps are bounded by 120 blocks per step",
        ],
    }
    extra = kw.pop("extra_units", None)
    replay = kw.pop("replay", None)
    if replay:
        d["units"].insert(0, {"pkg": "app", "run": "^TestVerif_%s_Replay" % replay, "checks": 1, "timeout": 300})
    d.update(kw)
    if extra:
        d["units"] = d["units"] + extra
    return d


PROPS = {
    "C01": chain("C01", 60, 1500, replay="C01", floor=0.5,
        technique="property-based testing: rapid state machine over the real app (signed txs), conservation invariant + per-transaction balance-delta law",
        level_text="Generated transaction histories (all marketplace message types, several tenants/providers, zero to exhaustion-sized block gaps) are executed on the real application; after every transaction and block advance the escrow module balance is compared with a full scan of escrow records and every actor's bank delta with its own deposits/refunds/payouts. Every actor also holds a second denomination, deployments are sometimes topped up in it, and it is conserved and reconciled with the records in the same way.",
        level_note="Trusted: cosmos-sdk bank/auth modules, rapid; explores sampled histories only."),
    "C02": chain("C02_App", 60, 1200, floor=0.3,
        technique="property-based testing: exhaustive small-domain enumeration of the escrow keeper (all deposits/rates/gaps/trigger schedules) + rapid state machine over the real app; trigger-independent accrual invariants recomputed from recorded heights",
        level_text="Keeper level: all small deposits, 1-3 payments with small rates and creation offsets, and all subsets of settlement trigger points/kinds are enumerated exhaustively against closed-form accrual invariants. The enumeration also demands that a successful PaymentClose closes exactly the payment it names. App level (metered against the lifetime of the LEASE in the market store, not only the payment record): histories with several concurrent leases per deployment check exact accrual (never-overdrawn accounts), the never-more-than-rate-x-blocks bound, transferred = credited, balance+transferred = deposits, and the overdraft distribution validity predicate.",
        level_note="Trusted: cosmos-sdk Int arithmetic; the keeper-level ledger bank is a harness stub; enumeration bounds are stated in the evidence.",
        extra_units=[{"pkg": "x/escrow/keeper", "run": "^TestVerif_C02_Enum$", "checks": 1, "norapid": True, "shards": {Q: 1, T: 16}, "timeout": {Q: 600, T: 7200},
                      "env": {"VERIF_C02_SHARDS": {Q: 1, T: 16}}}]),
    "C03": chain("C03", 60, 1500, replay="C03", floor=0.3,
        technique="property-based testing: rapid state machine over the real app, escrow record invariants + chain's own ValidateGenesis as oracle + close-takes-effect postconditions",
        level_text="Histories biased towards closes with zero elapsed blocks / zero accrued balance; after every step a full escrow scan checks open/closed/overdrawn agreement, zero balances of closed records, immutability of closed records, escrow.ValidateGenesis(ExportGenesis) and the postcondition of every successful close message.",
        level_note="Trusted: as C01; lazy settlement means only recorded states are related to each other."),
    "C05": chain("C05", 60, 1500, replay="C05", floor=0.3,
        technique="property-based testing: rapid state machine over the real app, join of market/deployment stores with escrow store after every transaction",
        level_text="After every transaction of generated histories the market/deployment records are joined with escrow records through the id mapping (lease<->payment, bid<->deposit account, deployment<->account) in both directions, plus per-record refund checks when a bid or deployment ends and 'no bid deposit stays in escrow once its deployment has ended'.",
        level_note="Trusted: as C01."),
    "C04": chain("C04", 100, 1500, replay="C04", floor=0.3,
        technique="property-based testing: rapid state machine over the real app, full scan of deployment and market stores after every transaction against the listed relations",
        level_text="After every transaction and block advance of generated multi-tenant histories (including overdrafts, pause/start/close of groups before and after overdraft) a full scan checks each relation of the statement between deployments, groups, orders, bids and leases, and the lease/bid/order price relation.",
        level_note="Trusted: as C01."),
    "C06": chain("C06", 100, 1200, floor=0.3,
        technique="property-based testing: rapid state machine over the real app, signer table from the statement vs GetSigners, wrongly-signed twins, raw key/value diff of all stores decoded by key layout and by embedded ids",
        level_text="Every message type is executed in reachable states where one owner holds several deployments with prefix-colliding sequence numbers; each transaction's raw store diff must decode (by key layout and, cross-checked, by the ids inside the value) to records of the object the message names; twins signed by another account must be rejected without effect; only the signer's balance may fall.",
        level_note="Trusted: as C01; the key-layout decoder is white-box (anchors key.go files)."),
    "C07": chain("C07", 60, 800, floor=0.2,
        technique="property-based testing: metamorphic repetition (handler run 8x on sibling cache branches, byte-compare writes/results/events) + differential twin app instance",
        level_text="Before each transaction its routed module handler is executed 8 times on sibling branches of the same state and the full store dump, result, gas consumed and events are compared bytewise (certificates expiring at the next full second are executed before and after that instant); a second application instance in the same process receives the identical block stream and must produce identical DeliverTx responses and app hashes.",
        level_note="Trusted: Go map iteration randomisation as the source of divergence (detection probability per two-key map order >= 1-2^-7 per transaction); single process, single architecture."),
    "C08": chain("C08", 60, 1500, floor=0.3,
        technique="property-based testing: rapid state machine over the real app with near-miss construction; independent set-based admission predicate evaluated on the pre-state",
        level_text="Bids are generated against orders with generated attribute requirements and all-of/any-of auditor lists, with providers and attestations that are exactly sufficient or broken in one place; every accepted bid / provider update must satisfy the independent predicate on the pre-state (only-if direction; converse recorded as statistic). What an auditor has signed is modelled independently from the history of successful sign/delete messages (keys incl. capitalisation variants), not read back from the audit store; the minimum bid deposit is occasionally changed through the parameter subspace.",
        level_note="Trusted: as C01."),
    "C16": chain("C16", 60, 1500, replay="C16", floor=0.2,
        technique="property-based testing: rapid state machine over the real app; expected typed-event multiset derived from the record diff vs events parsed as the provider parses them; codec round trip in package events",
        level_text="For every successful transaction the multiset of expected typed events is derived from the before/after record diff (including hook cascades) and compared with the transaction's akash.v1 events parsed through the module ParseEvent chain; spurious created/closed/paused/started events are rejected; all event types round-trip through the provider's real processEvent for generated ids and prices.",
        level_note="Trusted: as C01; events of failed transactions are ignored (they are never published).",
        extra_units=[{"pkg": "events", "run": "^TestVerif_C16_Codec$", "checks": {Q: 3000, T: 100000}, "shards": {Q: 1, T: 8}, "timeout": {Q: 600, T: 3000}}]),
    "C17": {
        "level": "exploration", "floor": 0.4,
        "technique": "property-based testing: rapid state machine over the real cert keeper and gRPC querier vs a map model; all iterators, filters and page sizes",
        "level_text": "Generated create/revoke/get/list histories by three owners with serial numbers whose byte encodings are prefixes of each other (0, 1, 255, 256, 65535, 65536, 2^64, 2^158 ...) are checked against a map model: registration only by the named account and once per (owner, serial); valid->revoked only; entries never vanish; every keeper iterator and every gRPC listing (owner/state/serial filters, key- and offset-pagination, limits 1-5) returns without error or panic and contains each matching entry exactly once with its serial and state. Signer enforcement for certificate messages is exercised by the chain machine (C06). Every serial has two different certificates (fresh key pairs), so a second registration after a revocation is attempted with other certificate bytes as well.",
        "level_note": "Trusted: Go crypto/x509 for building certificates (serials it refuses to encode are outside the domain); explores sampled histories only; listings may contain non-matching extras without alarm (the statement only demands inclusion).",
        "assumptions": ["serial numbers are non-negative and encodable by crypto/x509 (<= 20 octets)"],
        "units": [{"pkg": "x/cert/keeper", "run": "^TestVerif_C17_Replay$", "checks": 1, "timeout": 300},
                  {"pkg": "x/cert/keeper", "run": "^TestVerif_C17$", "checks": {Q: 400, T: 60000}, "shards": {Q: 2, T: 16}, "steps": 60, "timeout": {Q: 600, T: 3000}, "shrinktime": "30s"},
                  {"pkg": "app", "run": "^TestVerif_C17_Chain$", "checks": {Q: 40, T: 1200}, "shards": {Q: 2, T: 16}, "steps": 60, "timeout": {Q: 600, T: 3000}, "shrinktime": "30s"}],
    },
    "C19": {
        "level": "exploration", "floor": 0.7,
        "technique": "property-based testing: boundary-value generator for MsgCreateDeployment vs an independent big.Int limits oracle (ValidateBasic + handler on a discarded branch), plus signed boundary transactions and a stored-state invariant in the chain machine",
        "level_text": "Create-deployment messages are derived from a valid base by 1-3 edits that put a field on or just past each bound (group/unit counts 0/1/20/21, cpu/memory/storage at min-1/min/max/max+1, totals at the group maximum +-1 through several unit x count factorisations, replica counts 0/1/50/51/2^32-1, values >= 2^63, 2^64, negative, unset, nil sub-messages, price 0/1/max/max+1, wrong/mixed denominations, duplicate/empty names, version lengths 0/31/32/33/64, deposit min-1/min/wrong denom). Admitted => every clause of the statement holds (oracle over big.Int, limits read from GetValidationConfig and params); rejected => no effect; every stored deployment satisfies the clauses after every chain-machine transaction. In the chain machine the minimum deposit is also changed between transactions by writing the parameter subspace the way an executed governance proposal does; the oracle follows the current value.",
        "level_note": "Trusted: the oracle's reading of the limits table; a panic inside validation counts as rejection (as in baseapp.runTx).",
        "assumptions": ["network denomination uakt; limits as returned by GetValidationConfig() at run time"],
        "units": [
            {"pkg": "app", "run": "^TestVerif_C19_Replay$", "checks": 1, "timeout": 300},
            {"pkg": "app", "run": "^TestVerif_C19_Direct$", "checks": {Q: 3000, T: 250000}, "shards": {Q: 2, T: 16}, "timeout": {Q: 600, T: 3000}, "shrinktime": "30s"},
            {"pkg": "app", "run": "^TestVerif_C19_Chain$", "checks": {Q: 60, T: 400}, "shards": {Q: 2, T: 16}, "steps": 60, "timeout": {Q: 600, T: 3000}, "shrinktime": "30s"},
        ],
    },
    "C10": {
        "level": "exploration", "floor": 0.6,
        "fuzz": [{"pkg": "validation", "target": "FuzzC10CrossValidation", "time": 90}],
        "technique": "property-based testing: split/merge/permute and near-miss generators vs an independent multiset oracle (both directions); metamorphic hash relations (key-shuffled JSON round trip, every single-field edit by reflection); version gate through the real manifest manager on generated gated schedules (update events before/during/after the chain fetch); native fuzzing of the JSON manifest decoder in thorough",
        "level_text": "On-chain groups are generated from a small palette so that equal units recur; manifests are derived by splitting, merging and permuting services (must be accepted by both cross-validation entry points) and by one small alteration (count, cpu/memory/storage by one unit, one attribute, global<->local, port 80<->81, group renamed/added/dropped: must be rejected); an independent multiset oracle decides both directions. ManifestVersion must be invariant under key-shuffled JSON round trips and change under every single-field edit enumerated by reflection. The hash-vs-chain-version gate is decided on the real manager with the chain query gated by the harness: generated schedules of lease/submit/fetch/version-update steps, acceptance iff the hash equals the latest update event's version, else the fetched Deployment.Version.",
        "level_note": "Trusted: the oracle's definition of endpoint kinds (TCP, global, external port 80 = shared HTTP); counts >= 1 (count-0 units are unreachable for real callers).",
        "assumptions": ["manifests and groups stay inside what ValidateManifest / on-chain validation admit"],
        "units": [
            {"pkg": "validation", "run": "^TestVerif_C10_CrossValidation$", "checks": {Q: 4000, T: 100000}, "shards": {Q: 2, T: 16}, "timeout": {Q: 600, T: 3000}},
            {"pkg": "validation", "run": "^TestVerif_C10_Hash$", "checks": {Q: 300, T: 5000}, "shards": {Q: 2, T: 16}, "timeout": {Q: 600, T: 3000}},
            {"pkg": "provider/manifest", "run": "^TestVerif_C10_VersionGate$", "checks": {Q: 1500, T: 8000}, "shards": {Q: 4, T: 16}, "timeout": {Q: 900, T: 3000}, "shrinktime": "40s"},
        ],
    },
    "C18": {
        "level": "exploration", "floor": 0.4,
        "fuzz": [{"pkg": "sdl", "target": "FuzzC18Read", "time": 120}],
        "technique": "property-based testing: structural SDL v2 document generator with generated YAML key permutations; determinism, faithfulness against the generator's own tree, and cross-validation oracles; native fuzzing of sdl.Read in thorough",
        "level_text": "Documents (1-4 services with image/command/args/env/exposes, 1-3 compute profiles in integral and decimal unit forms, 1-3 placements with attributes/signedBy/pricing, deployment map) are emitted as YAML twice - canonical and with every mapping's keys permuted - and read repeatedly: groups, manifest and version must be identical; every declared field must appear unchanged in manifest and groups (decimal quantities within one unit: the parser truncates a float product); the manifest must validate against the groups of the same document. Between two reads of a document the process reads two invalid relatives of it (a service with hostnames deployed to two placements, an unknown profile): the outputs must not change. Storage and cpu attributes are generated.",
        "level_note": "Trusted: the harness's YAML emitter; a document Read rejects is skipped (counted), a panic/error on an invalid document is a rejection.",
        "assumptions": ["documents are SDL v2 produced by the structural generator; no include directives"],
        "units": [{"pkg": "sdl", "run": "^TestVerif_C18_Replay$", "checks": 1, "timeout": 300},
                  {"pkg": "sdl", "run": "^TestVerif_C18$", "checks": {Q: 1500, T: 40000}, "shards": {Q: 2, T: 16}, "timeout": {Q: 600, T: 3000}, "shrinktime": "30s"}],
    },
    "C11": {
        "level": "exploration", "floor": 0.5,
        "technique": "property-based testing: generated lease ids x manifest groups x provider settings through the real builders and client.Deploy on fake clientsets; recorded API actions and stored objects checked; small semantic NetworkPolicy evaluator over probe flows",
        "level_text": "For generated leases (extreme and textually near-colliding ids), manifest groups (1-4 services, env incl. AKASH_* overrides, TCP/UDP global/local exposes, resources at and between bounds) and settings (commit levels 0.5-8, static ingress hosts, network policies, runtime classes): every builder object and every action recorded by the fake clientsets during two Deploy rounds is confined to the lease's namespace; containers are unprivileged without escalation or service-account token; limits equal the lease and 0 < requests <= limits; namespace names are valid DNS labels and injective over the run; with policies enabled a NetworkPolicy evaluator admits ingress from outside only for the ingress controller or globally exposed ports and no non-DNS egress to RFC1918 ranges. A third of the cases injects one API error (drawn verb x resource) into the update round and retries the same manifest: whatever Deploy reports as success must leave objects matching the manifest it was given. After a Deploy that FAILED on the injected error, workloads left in the namespace must still be covered by the restrictions and nothing beyond the ports exposed globally by the old or new manifest may be admitted; after an update, services and ingresses must equal those of a first deploy of the same manifest.",
        "level_note": "Trusted: client-go fake clientsets as the recording cluster; the harness's NetworkPolicy evaluator (standard additive allow semantics); 'private ranges' = RFC1918.",
        "assumptions": ["manifest groups are valid per ValidateManifest; a Deploy error is a refusal, not a violation"],
        "units": [{"pkg": "provider/cluster/kube", "run": "^TestVerif_C11_Replay$", "checks": 1, "timeout": 300},
                  {"pkg": "provider/cluster/kube", "run": "^TestVerif_C11$", "checks": {Q: 400, T: 60000}, "shards": {Q: 2, T: 16}, "timeout": {Q: 600, T: 3000}, "shrinktime": "30s"}],
    },
    "C09": {
        "level": "exploration", "floor": 0.3,
        "technique": "property-based testing: generated client-certificate classes against the real cert keeper/querier behind tls.Config.VerifyPeerCertificate, real TLS 1.3 handshakes against an httptest server built from the gateway's router and TLS config, generated request paths/parameters with recorded lease/deployment ids",
        "level_text": "Certificates are built with crypto/x509 in 14 classes (genuine; forged copies of a valid entry's name+serial with a fresh key or another tenant's key; revoked; unknown; expired; not yet valid; without client-auth usage; two-element chains; non-address CN; differing issuer; re-issued by the registered key; expired twin of a valid entry; foreign CN) and registered through the real cert keeper; VerifyPeerCertificate must accept exactly the genuine class. Real handshakes confirm what a client observes, and for every generated path (numbers, overflowing numbers, other tenants' addresses, '..', encoded slashes, owner=/provider= parameters) every id recorded by the mocked cluster/manifest services carries the authenticated owner and this provider. A third unit runs 2-4 verifications concurrently on ONE TLS configuration with every chain lookup gated by the harness (generated start/return order): each verdict must equal the sequential one (genuine accepted; forged copy, revoked, unknown rejected). A fourth unit runs register / revoke / present histories on one TLS configuration (certificates that may issue others, forged copies signed by a valid or revoked sibling certificate of the same account): the verdict depends on the chain state at that moment only.",
        "level_note": "Trusted: Go crypto/tls and crypto/x509; wall clock only inside the code under test (validity windows are days away from the boundary); provider services are mockery mocks that record their arguments.",
        "assumptions": ["ECDSA P-256 certificates; TLS 1.3"],
        "units": [
            {"pkg": "provider/gateway/rest", "run": "^TestVerif_C09_Replay", "checks": 1, "timeout": 300},
            {"pkg": "provider/gateway/rest", "run": "^TestVerif_C09_History$", "checks": {Q: 400, T: 8000}, "shards": {Q: 2, T: 16}, "timeout": {Q: 600, T: 3000}, "shrinktime": "30s"},
            {"pkg": "provider/gateway/rest", "run": "^TestVerif_C09_Overlap$", "checks": {Q: 300, T: 6000}, "shards": {Q: 2, T: 16}, "race": {Q: False, T: True}, "timeout": {Q: 600, T: 3000}, "shrinktime": "30s"},
            {"pkg": "provider/gateway/rest", "run": "^TestVerif_C09_Verify$", "checks": {Q: 400, T: 8000}, "shards": {Q: 2, T: 16}, "timeout": {Q: 600, T: 3000}, "shrinktime": "30s"},
            {"pkg": "provider/gateway/rest", "run": "^TestVerif_C09_Handshake$", "checks": {Q: 150, T: 2000}, "shards": {Q: 2, T: 16}, "timeout": {Q: 600, T: 3000}, "shrinktime": "30s"},
        ],
    },
    "C12": {
        "level": "exploration", "floor": 0.25,
        "technique": "property-based testing: rapid state machine over a live inventoryService with a scripted cluster client; exact bin-packing oracle for grants; reference model for accounting; differential twin service that is never queried",
        "level_text": "Generated histories of reserve / release / status / deployment events / node-snapshot changes (1-3 nodes, tight small-integer capacities, commit levels 0.5-3.7, 0-5 external ports) run against the real service: every grant must be packable (exact search over replica placements with the most lenient commit scaling) on the last reported availability and within the free ports; the number of reported reservations equals those outstanding; each reservation is reported with the same amounts every time; a release removes exactly one; and an identical twin service whose status is never queried must take the same reserve decisions. Orders come in pairs that differ only in the order sequence, deployment events may carry the sibling order id, and a group object may be handed to reserve again (retry / re-reservation).",
        "level_note": "Trusted: event-based synchronisation (a matching deployment event is followed by an observed Inventory() call before the history continues); the packing oracle only flags over-commitment (first-fit may legitimately refuse a packable set).",
        "assumptions": ["inventory poll period is one hour so refreshes happen only where the harness triggers them"],
        "units": [{"pkg": "provider/cluster", "run": "^TestVerif_C12_Replay$", "checks": 1, "timeout": 300},
                  {"pkg": "provider/cluster", "run": "^TestVerif_C12$", "checks": {Q: 300, T: 60000}, "shards": {Q: 2, T: 16}, "steps": 40, "timeout": {Q: 600, T: 3000}, "shrinktime": "30s"}],
    },
    "C13": {
        "level": "fault_enumeration", "floor": 0.4,
        "technique": "property-based testing with a harness-owned schedule: every asynchronous step of the real order monitor is gated; generated sequences of completions, single failures, chain events, bid timeout and shutdown; call-log oracle at termination",
        "level_text": "A real order monitor (newOrderInternal) runs over a real bus while the harness gates group fetch, existing-bid query, auditor lookup, Reserve, pricing, create-bid and close-bid broadcasts and Unreserve. Generated schedules complete steps (ok or failing), publish order-closed / lease-created events for this and other orders/providers/groups, shut the parent down or let a bid timeout fire, in particular while steps are in flight, and finally complete whatever is still in flight. Over the call log: at most one create-bid, never above the group's maximum price, only after a successful reservation; unless the lease was won every successful reservation is followed by an Unreserve and an existing bid by a close-bid; the monitor always terminates. When a bid timeout is configured, steps still in flight at termination may outlast it before they complete. A scripted replay unit re-runs the shrunk schedules of the two findings. On the restart path the chain may hold this provider's bid open or already closed; once that is known no create-bid may follow.",
        "level_note": "Trusted: when two channels are ready at once the Go runtime's select picks - both outcomes are legal schedules and the oracle is schedule independent; bounded waits (20 s) only detect wedging.",
        "assumptions": ["single failure injection per step; Unreserve/close-bid calls count as released/closed even if the call itself fails"],
        "units": [{"pkg": "provider/bidengine", "run": "^TestVerif_C13_Replay$", "checks": 1, "timeout": 300},
                  {"pkg": "provider/bidengine", "run": "^TestVerif_C13$", "checks": {Q: 300, T: 5000}, "shards": {Q: 4, T: 16}, "race": {Q: False, T: True}, "timeout": {Q: 600, T: 3000}, "shrinktime": "30s"}],
    },
    "C14": {
        "level": "fault_enumeration", "floor": 0.4,
        "technique": "property-based testing with a harness-owned schedule: real service loop + deployment managers + inventory over a real bus; Deploy/TeardownLease gated, hostname-reservation reply held by the harness; bus barrier for acknowledgements; call-log oracle",
        "level_text": "Generated schedules over {manifest received (version k), lease closed, hostname reply ok/error, finish the running cluster operation ok/error, shutdown} of length <= 10 drive the real cluster service. A barrier event that travels the same bus acknowledges that the service loop (and, through its synchronous hand-off, the manager) has processed each stimulus. Over the call log: cluster operations of the lease never overlap; no Deploy starts after the lease-closed signal was accepted; after an accepted close (without shutdown) teardown starts after the last deploy finished, the reservation disappears from the inventory and the hostnames become reservable by another deployment; without close/failure/shutdown the last deploy carries the most recently received manifest. Manifest versions name different hostname sets (including one held by another deployment); at the end nothing may be reserved for the lease's deployment and the foreign hostname must still belong to its holder.",
        "level_note": "Trusted: the barrier (bus FIFO + synchronous manager hand-off); bounded waits of 20 s only detect wedging; teardown errors are limited to two attempts (the code retries with back-off).",
        "assumptions": ["one lease per schedule; the deployment monitor's first health check (>= 4 s) lies beyond the duration of a case"],
        "units": [{"pkg": "provider/cluster", "run": "^TestVerif_C14$", "checks": {Q: 260, T: 2500}, "shards": {Q: 4, T: 16}, "race": {Q: False, T: True}, "timeout": {Q: 900, T: 3000}, "shrinktime": "40s"}],
    },
    "C20": {
        "level": "fault_enumeration", "floor": 0.4,
        "technique": "property-based testing with a harness-owned schedule: the real manifest manager over a real bus with the chain query gated; reference model of leases/data/versions/validated manifests/outstanding submissions; rendezvous barrier with the manager loop after every step",
        "level_text": "Generated schedules over {lease won, submit (valid / wrong version / count mismatch / no services / hostname clash / valid-after-update), chain fetch completes ok/error, version updated, lease removed, deployment closed, shutdown} of length <= 10 drive the real manager. After each step a no-op message accepted by the manager loop proves the step was processed; then no submission has two replies, every submission is answered once nothing it could wait for is outstanding (and always after stop), a reply is an acceptance iff a lease is held, chain data is fetched, the hash equals the expected version and the manifest validates (this is also the C10 version gate), and every ManifestReceived on the bus names a held lease, carries fetched data and the latest validated manifest. A submission handed to a stopped manager is still answered.",
        "level_note": "Trusted: the barrier (single goroutine loop, unbuffered hand-off); 20 s bounded waits as hang detection; SimpleHostnames as hostname service.",
        "assumptions": ["one deployment per schedule; the 5-minute linger timer and the manifest watchdog are not exercised (no clock injection without a source hook)"],
        "units": [{"pkg": "provider/manifest", "run": "^TestVerif_C20_Service$", "checks": {Q: 300, T: 5000}, "shards": {Q: 2, T: 16}, "race": {Q: False, T: True}, "timeout": {Q: 900, T: 3000}, "shrinktime": "40s"},
                  {"pkg": "provider/manifest", "run": "^TestVerif_C20$", "checks": {Q: 800, T: 8000}, "shards": {Q: 4, T: 16}, "race": {Q: False, T: True}, "timeout": {Q: 900, T: 3000}, "shrinktime": "40s"}],
    },
    "C15": {
        "level": "exploration",
        "technique": "property-based testing: rapid state machine vs per-subscriber FIFO model + generated concurrent runs with schedule-independent order oracle",
        "level_text": "Generated histories (publish/subscribe/clone/read/close) on the real bus agree step by step with a FIFO reference model, with a sentinel drain making 'nothing extra' deterministic; generated concurrent runs (1-4 publishers, slow/stalled readers, clone and close points) are checked for gap-free, duplicate-free, in-order, common-total-order delivery and for bounded-time completion of Publish/Close; a third mode closes a subscriber with a generated number of clones while events are published and the bus is closed at a generated point of the tear-down, and requires every Close to return and every Done to fire. Exploration, not proof: interleavings in the concurrent mode come from the Go scheduler.",
        "level_note": "Trusted: rapid, the Go runtime scheduler as interleaving source, 10 s bounded waits as the only liveness signal (a wait that expires is reported as blocking).",
        "floor": 0.2,
        "assumptions": [
            "mode (b) relies on the Go scheduler for interleavings; the oracle is schedule independent",
            "closing a subscriber also shuts down its clones (documented bus-of-buses behaviour) and is modelled so",
        ],
        "units": [
            {"pkg": "pubsub", "run": "^TestVerif_C15_Seq$", "checks": {Q: 400, T: 20000}, "shards": {Q: 1, T: 8},
             "race": {Q: False, T: True}, "timeout": {Q: 300, T: 1500}, "shrinktime": "20s"},
            {"pkg": "pubsub", "run": "^TestVerif_C15_Conc$", "checks": {Q: 150, T: 6000}, "shards": {Q: 2, T: 16},
             "race": {Q: False, T: True}, "timeout": {Q: 300, T: 1500}, "shrinktime": "20s"},
            {"pkg": "pubsub", "run": "^TestVerif_C15_CloseRace$", "checks": {Q: 150, T: 4000}, "shards": {Q: 2, T: 16},
             "race": {Q: False, T: False}, "timeout": {Q: 300, T: 1500}, "shrinktime": "1s"},  # a failing case costs a 10 s bounded wait
        ],
    },
}

NOTES = ("All checks are property-based tests / fuzzers (pgregory.net/rapid v1.3.0, native go fuzzing in thorough). "
         "Harness code lives under /verif/harness and is injected into the package under test with go test -overlay/-modfile; "
         "/repo carries no hook commits, only fix: commits for genuine defects (see KNOWN_FINDINGS.txt and DESIGN.md section 4). "
         "VERIF_SEED selects the rapid seed (0 is remapped); VERIF_REPO overrides the tree under test for sensitivity runs.")

import json as _json, os as _os
_here = _os.path.dirname(_os.path.dirname(_os.path.abspath(__file__)))
NOT_APPLICABLE = []
for _l in open(_os.path.join(_here, "properties.jsonl")):
    _l = _l.strip()
    if not _l:
        continue
    _p = _json.loads(_l)
    if _p["id"] not in PROPS or not PROPS[_p["id"]].get("claimed", True):
        NOT_APPLICABLE.append({"property_id": _p["id"], "reason": PENDING.get(_p["id"], "not claimed at this commit: the generated-input check for this property is designed (DESIGN.md section 3) but not yet built and validated; the technique applies")})
