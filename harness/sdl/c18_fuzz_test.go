package sdl_test

// Native fuzz target for C18 (thorough tier): bytes -> sdl.Read. The property speaks about
// valid documents only: a panic or an error is a rejection. For ACCEPTED documents the
// oracle inside the target checks determinism and self-consistency.

import (
	"os"
	"path/filepath"
	"testing"

	"github.com/ovrclk/akash/validation"
)

func FuzzC18Read(f *testing.F) {
	if dir := os.Getenv("VERIF_REPO_PKG"); dir != "" {
		files, _ := filepath.Glob(filepath.Join(dir, "_testdata", "*.yaml"))
		for _, fn := range files {
			if b, err := os.ReadFile(fn); err == nil {
				f.Add(b)
			}
		}
	}
	f.Add([]byte("---\nversion: \"2.0\"\nservices:\n  web:\n    image: nginx\n    command: [\"sh\"]\n    expose:\n      - port: 80\n        to:\n          - global: true\nprofiles:\n  compute:\n    web:\n      resources:\n        cpu:\n          units: 0.5\n        memory:\n          size: 1.5Mi\n        storage:\n          size: 6M\n  placement:\n    a:\n      pricing:\n        web:\n          denom: uakt\n          amount: 7\n    b:\n      attributes:\n        region: x\n      pricing:\n        web:\n          denom: uakt\n          amount: 9\ndeployment:\n  web:\n    a:\n      profile: web\n      count: 1\n    b:\n      profile: web\n      count: 2\n"))
	f.Fuzz(func(t *testing.T, doc []byte) {
		groups, m, ver, fp, err := c18Outputs(doc)
		if err != nil {
			return // rejected (errors and panics on invalid input are outside the property)
		}
		for i := 0; i < 2; i++ {
			_, _, _, fp2, err2 := c18Outputs(doc)
			if err2 != nil || fp2 != fp {
				t.Fatalf("C18 VIOLATION key=c18-nondeterministic: the same accepted document gave different outputs on a second read (err=%v)", err2)
			}
		}
		if len(ver) != 32 {
			t.Fatalf("C18 VIOLATION key=c18-version-length: %d", len(ver))
		}
		if err := validation.ValidateManifestWithGroupSpecs(&m, groups); err != nil {
			t.Fatalf("C18 VIOLATION key=c18-cross-validation: accepted document whose manifest does not validate against its own groups: %v", err)
		}
	})
}
