package rest

// C09, overlapping handshakes: the verdict on a client certificate must not depend on what
// other handshakes the same TLS configuration is verifying at the same time. The harness owns
// the schedule: every chain lookup blocks until released, so verifications overlap exactly
// where the schedule says.

import (
	"context"
	"crypto/ecdsa"
	"crypto/elliptic"
	"crypto/rand"
	"crypto/tls"
	"crypto/x509"
	"crypto/x509/pkix"
	"encoding/pem"
	"fmt"
	"io"
	"math/big"
	"net/http"
	"strings"
	"testing"
	"time"

	"pgregory.net/rapid"

	ctypes "github.com/ovrclk/akash/x/cert/types"

	gwutils "github.com/ovrclk/akash/provider/gateway/utils"
)

const c09OverlapRule = "schedule in which >=2 certificate verifications are in flight at the same time on one TLS configuration (chain lookups gated), at least one of them for a forged / revoked / unknown certificate"

const c09Wait = 20 * time.Second

type c09Call struct {
	class  string
	der    [][]byte
	expect bool // accept?
	done   chan error
	gate   chan struct{} // non-nil while the call waits in its chain lookup
	ended  bool
	verr   error
}

func TestVerif_C09_Overlap(t *testing.T) {
	vsInit("C09", c09OverlapRule)
	defer vsFlush()
	rapid.Check(t, func(t *rapid.T) {
		chain := c09NewChain()
		now := time.Now()
		day := 24 * time.Hour
		mk := func(o int, serial int64) c09Spec {
			return c09Spec{cn: c09Tenants[o].String(), serial: big.NewInt(serial), notBefore: now.Add(-30 * day), notAfter: now.Add(300 * day), clientAuth: true}
		}
		// on chain: tenant 0 and tenant 1 each have a valid certificate, tenant 2 has a revoked one
		g0, g1, r2 := c09Make(mk(0, 11)), c09Make(mk(1, 12)), c09Make(mk(2, 13))
		for i, c := range []*c09Cert{g0, g1, r2} {
			if err := chain.k.CreateCertificate(chain.ctx, c09Tenants[i], c.pem, c.pub); err != nil {
				t.Fatalf("register: %v", err)
			}
		}
		if err := chain.k.RevokeCertificate(chain.ctx, ctypes.CertID{Owner: c09Tenants[2], Serial: *big.NewInt(13)}); err != nil {
			t.Fatalf("revoke: %v", err)
		}
		f0, f1 := c09Make(mk(0, 11)), c09Make(mk(1, 12)) // self-made copies of name + serial
		u0 := c09Make(mk(0, 99))                         // never registered
		palette := map[string]*c09Call{
			"genuine0": {class: "genuine0", der: [][]byte{g0.der}, expect: true},
			"genuine1": {class: "genuine1", der: [][]byte{g1.der}, expect: true},
			"forged0":  {class: "forged0", der: [][]byte{f0.der}},
			"forged1":  {class: "forged1", der: [][]byte{f1.der}},
			"revoked2": {class: "revoked2", der: [][]byte{r2.der}},
			"unknown0": {class: "unknown0", der: [][]byte{u0.der}},
		}
		names := []string{"genuine0", "genuine0", "genuine1", "forged0", "forged0", "forged1", "revoked2", "unknown0"}

		chain.arrivals = make(chan chan struct{}, 16)
		cfg, err := gwutils.NewServerTLSConfig(context.Background(), nil, chain)
		if err != nil {
			t.Fatalf("NewServerTLSConfig: %v", err)
		}
		var sched []string
		var calls []*c09Call
		overlapped, hostile := false, false
		inFlight := func() []int {
			var out []int
			for i, c := range calls {
				if c.gate != nil {
					out = append(out, i)
				}
			}
			return out
		}
		// settle waits until call i either reaches its (next) chain lookup or ends
		settle := func(i int) {
			c := calls[i]
			select {
			case g := <-chain.arrivals:
				c.gate = g
			case c.verr = <-c.done:
				c.ended = true
			case <-time.After(c09Wait):
				t.Fatalf("VERIF-INCONCLUSIVE: verification #%d neither reached the chain lookup nor returned within %v", i, c09Wait)
			}
		}
		n := rapid.IntRange(2, 4).Draw(t, "calls")
		steps := 0
		for (len(calls) < n || len(inFlight()) > 0) && steps < 24 {
			steps++
			fl := inFlight()
			start := len(calls) < n && (len(fl) == 0 || rapid.IntRange(0, 2).Draw(t, "startAnother") > 0)
			if start {
				proto := palette[rapid.SampledFrom(names).Draw(t, "class")]
				c := &c09Call{class: proto.class, der: proto.der, expect: proto.expect, done: make(chan error, 1)}
				calls = append(calls, c)
				sched = append(sched, fmt.Sprintf("start#%d(%s)", len(calls)-1, c.class))
				go func() { c.done <- cfg.VerifyPeerCertificate(c.der, nil) }()
				settle(len(calls) - 1)
				if len(inFlight()) >= 2 {
					overlapped = true
				}
				continue
			}
			i := fl[rapid.IntRange(0, len(fl)-1).Draw(t, "release")]
			sched = append(sched, fmt.Sprintf("lookup-returns#%d", i))
			g := calls[i].gate
			calls[i].gate = nil
			close(g)
			settle(i)
		}
		for i, c := range calls {
			if !c.ended {
				t.Fatalf("VERIF-INCONCLUSIVE: verification #%d still running at the end of the schedule %v", i, sched)
			}
			if !c.expect {
				hostile = true
			}
		}
		vsCase("overlap|"+strings.Join(sched, ";"), overlapped && hostile, "overlap")
		for i, c := range calls {
			if c.expect && c.verr != nil {
				t.Fatalf("C09 VIOLATION key=c09-genuine-rejected: verification #%d of the tenant's own valid certificate (%s) failed with %v while other handshakes were in flight; schedule=%v", i, c.class, c.verr, sched)
			}
			if !c.expect && c.verr == nil {
				t.Fatalf("C09 VIOLATION key=c09-%s-accepted-overlapped: verification #%d of a %s certificate SUCCEEDED while other handshakes were in flight on the same TLS configuration; schedule=%v", strings.TrimRight(c.class, "012"), i, c.class, sched)
			}
		}
	})
}

// ---- histories on one TLS configuration -------------------------------------------------------
//
// The verdict on a presented certificate depends on the chain state at that moment only, not on
// what the same gateway process verified earlier: generated histories of register / revoke /
// present on ONE TLS configuration, including certificates that are allowed to sign (CA:TRUE, the
// openssl default) and forged ones signed by another - valid or revoked - certificate of the
// same account.

const c09HistoryRule = "history on one TLS configuration in which a certificate is presented after >=1 earlier successful verification and >=1 revocation, or a forged certificate signed by another certificate of the same account is presented, or a certificate is presented again after its validity ended while the gateway was running"

type c09Reg struct {
	spec    c09Spec
	cert    *c09Cert
	revoked bool
}

func c09MakeCA(s c09Spec, isCA bool) *c09Cert {
	if !isCA {
		return c09Make(s)
	}
	// like c09Make, but the certificate may sign others
	priv, err := ecdsa.GenerateKey(elliptic.P256(), rand.Reader)
	if err != nil {
		panic(err)
	}
	tmpl := &x509.Certificate{
		SerialNumber:          s.serial,
		Subject:               pkix.Name{CommonName: s.cn},
		NotBefore:             s.notBefore,
		NotAfter:              s.notAfter,
		KeyUsage:              x509.KeyUsageCertSign | x509.KeyUsageDigitalSignature,
		ExtKeyUsage:           []x509.ExtKeyUsage{x509.ExtKeyUsageClientAuth},
		BasicConstraintsValid: true,
		IsCA:                  true,
	}
	der, err := x509.CreateCertificate(rand.Reader, tmpl, tmpl, priv.Public(), priv)
	if err != nil {
		panic(err)
	}
	pubDer, _ := x509.MarshalPKIXPublicKey(priv.Public())
	keyDer, _ := x509.MarshalPKCS8PrivateKey(priv)
	c := &c09Cert{der: der, priv: priv}
	c.pem = pem.EncodeToMemory(&pem.Block{Type: ctypes.PemBlkTypeCertificate, Bytes: der})
	c.pub = pem.EncodeToMemory(&pem.Block{Type: ctypes.PemBlkTypeECPublicKey, Bytes: pubDer})
	kp := pem.EncodeToMemory(&pem.Block{Type: ctypes.PemBlkTypeECPrivateKey, Bytes: keyDer})
	c.tls, err = tls.X509KeyPair(c.pem, kp)
	if err != nil {
		panic(err)
	}
	return c
}

func TestVerif_C09_History(t *testing.T) {
	vsInit("C09", c09HistoryRule)
	defer vsFlush()
	rapid.Check(t, func(t *rapid.T) {
		chain := c09NewChain()
		cfg, err := gwutils.NewServerTLSConfig(context.Background(), nil, chain)
		if err != nil {
			t.Fatalf("NewServerTLSConfig: %v", err)
		}
		now := time.Now()
		day := 24 * time.Hour
		owner := c09Tenants[0]
		// the same history is also played over real TLS connections: one HTTP client per
		// registered certificate, each with a session cache, every request on a new connection
		// (so later requests of a client resume the TLS session of its first one)
		rec := &c09Recorder{}
		ts := c09Server(chain, rec)
		defer ts.Close()
		clients := map[int64]*http.Client{}
		served := func(s int64, c *c09Cert) (bool, int) {
			hc := clients[s]
			if hc == nil {
				hc = &http.Client{Timeout: 20 * time.Second, Transport: &http.Transport{
					TLSClientConfig: &tls.Config{Certificates: []tls.Certificate{c.tls}, InsecureSkipVerify: true, MinVersion: tls.VersionTLS13, // nolint: gosec
						ClientSessionCache: tls.NewLRUClientSessionCache(4)},
					DisableKeepAlives: true,
				}}
				clients[s] = hc
			}
			rec.mu.Lock()
			before := len(rec.leases)
			rec.mu.Unlock()
			resp, err := hc.Get(ts.URL + "/lease/1/1/1/status")
			status := 0
			if err == nil {
				status = resp.StatusCode
				_, _ = io.Copy(io.Discard, resp.Body)
				resp.Body.Close()
			}
			rec.mu.Lock()
			after := len(rec.leases)
			rec.mu.Unlock()
			return after > before, status
		}
		regs := map[int64]*c09Reg{} // serial -> registration of tenant 0
		var hist []string
		accepted, revocations, interesting := 0, 0, false
		serials := []int64{21, 22, 23}
		steps := rapid.IntRange(3, 10).Draw(t, "steps")
		// in some histories the certificate with serial 23 is short-lived: it is registered and
		// served while valid, and its validity ends while the gateway is still running
		shortLived := rapid.IntRange(0, 7).Draw(t, "shortLived23") == 0
		const shortLife = 2 * time.Second
		// follow-ups that make the rare orders likely: a certificate that was just served gets
		// revoked; a revocation is followed by an outage of the chain node and another request
		var forced []int
		forcedSerial := int64(0)
		for i := 0; i < steps; i++ {
			s := rapid.SampledFrom(serials).Draw(t, "serial")
			op := rapid.IntRange(0, 6).Draw(t, "op")
			if len(forced) > 0 {
				op, s = forced[0], forcedSerial
				forced = forced[1:]
			}
			r := regs[s]
			if op == 2 && r != nil && !r.revoked && rapid.Bool().Draw(t, "outageAfterRevocation") {
				chain.mu.Lock()
				isDown := chain.down
				chain.mu.Unlock()
				if !isDown {
					forced, forcedSerial = []int{6, 3}, s
				}
			}
			switch op {
			case 7: // wall-clock time passes until the short-lived certificate is no longer valid
				if r == nil || !shortLived || s != 23 {
					continue
				}
				if d := time.Until(r.spec.notAfter.Add(150 * time.Millisecond)); d > 0 {
					time.Sleep(d)
				}
				hist = append(hist, "validity-of-23-ends")
				interesting = interesting || accepted > 0
			case 6: // the chain node becomes unreachable / reachable again
				chain.mu.Lock()
				chain.down = !chain.down
				down := chain.down
				chain.mu.Unlock()
				hist = append(hist, fmt.Sprintf("chain-unreachable(%v)", down))
				interesting = interesting || (down && revocations > 0)
			case 0, 1: // register
				if r != nil {
					continue
				}
				spec := c09Spec{cn: owner.String(), serial: big.NewInt(s), notBefore: now.Add(-30 * day), notAfter: now.Add(300 * day), clientAuth: true}
				if shortLived && s == 23 {
					spec.notAfter = time.Now().Add(shortLife).Truncate(time.Second) // certificates record whole seconds
					// serve it once while valid, let its validity end, present it again
					forced, forcedSerial = []int{3, 7, 3}, s
				}
				isCA := rapid.Bool().Draw(t, "mayIssue")
				c := c09MakeCA(spec, isCA)
				if err := chain.k.CreateCertificate(chain.ctx, owner, c.pem, c.pub); err != nil {
					t.Fatalf("register: %v", err)
				}
				regs[s] = &c09Reg{spec: spec, cert: c}
				hist = append(hist, fmt.Sprintf("register(%d,mayIssue=%v)", s, isCA))
			case 2: // revoke
				if r == nil || r.revoked {
					continue
				}
				if err := chain.k.RevokeCertificate(chain.ctx, ctypes.CertID{Owner: owner, Serial: *big.NewInt(s)}); err != nil {
					t.Fatalf("revoke: %v", err)
				}
				r.revoked = true
				revocations++
				hist = append(hist, fmt.Sprintf("revoke(%d)", s))
			default: // present something that claims (owner, serial s)
				kind := rapid.SampledFrom([]string{"genuine", "genuine", "self-made", "issued-by-sibling"}).Draw(t, "present")
				var der []byte
				expect := "reject"
				switch kind {
				case "genuine":
					if r == nil {
						continue
					}
					der = r.cert.der
					if !r.revoked {
						expect = "accept"
					}
					if shortLived && s == 23 {
						// decide only well away from the instant itself
						switch left := time.Until(r.spec.notAfter); {
						case left < -100*time.Millisecond:
							expect = "reject"
						case left < 300*time.Millisecond:
							expect = "any"
						}
					}
				case "self-made":
					spec := c09Spec{cn: owner.String(), serial: big.NewInt(s), notBefore: now.Add(-30 * day), notAfter: now.Add(300 * day), clientAuth: true}
					der = c09Make(spec).der
				default:
					// signed by the key of ANOTHER registration of the same account (valid or revoked)
					var other *c09Reg
					for _, os := range serials {
						if os != s && regs[os] != nil {
							other = regs[os]
						}
					}
					if other == nil {
						continue
					}
					spec := c09Spec{cn: owner.String(), serial: big.NewInt(s), notBefore: now.Add(-30 * day), notAfter: now.Add(300 * day), clientAuth: true, signer: other.cert}
					der = c09Make(spec).der
					interesting = true
				}
				if accepted > 0 && revocations > 0 {
					interesting = true
				}
				chain.mu.Lock()
				if chain.down && expect == "accept" {
					expect = "any" // validity cannot be established right now: refusing is fine, accepting a valid certificate is not a violation
				}
				chain.mu.Unlock()
				verr := cfg.VerifyPeerCertificate([][]byte{der}, nil)
				hist = append(hist, fmt.Sprintf("present(%d,%s)->%v", s, kind, verr == nil))
				if expect == "accept" && verr != nil {
					t.Fatalf("C09 VIOLATION key=c09-genuine-rejected: the account's registered, unrevoked certificate %d was rejected: %v\n-- history: %v", s, verr, hist)
				}
				if expect == "reject" && verr == nil && kind == "genuine" && !r.revoked {
					t.Fatalf("C09 VIOLATION key=c09-expired-accepted: certificate %d was accepted after its validity had ended (NotAfter %s, now %s)\n-- history: %v", s, r.spec.notAfter.Format(time.RFC3339Nano), time.Now().Format(time.RFC3339Nano), hist)
				}
				if expect == "reject" && verr == nil {
					t.Fatalf("C09 VIOLATION key=c09-%s-accepted-after-history: a %s certificate claiming serial %d was ACCEPTED\n-- history: %v", kind, kind, s, hist)
				}
				if verr == nil {
					accepted++
				}
				if kind == "genuine" {
					reached, status := served(s, r.cert)
					hist = append(hist, fmt.Sprintf("request(%d)->reached=%v,status=%d", s, reached, status))
					if expect == "reject" && reached && !r.revoked {
						t.Fatalf("C09 VIOLATION key=c09-expired-served: a request over TLS with certificate %d, whose validity ended while the gateway was running, reached the provider's handlers as %s (status %d)\n-- history: %v", s, owner, status, hist)
					}
					if expect == "reject" && reached {
						t.Fatalf("C09 VIOLATION key=c09-revoked-served: a request over TLS with certificate %d, which is revoked on chain, reached the provider's handlers as %s (status %d)\n-- history: %v", s, owner, status, hist)
					}
					if expect == "accept" && !reached {
						t.Fatalf("C09 VIOLATION key=c09-genuine-not-served: a request with the registered, unrevoked certificate %d did not reach the handler (status %d)\n-- history: %v", s, status, hist)
					}
				}
			}
		}
		vsCase("history|"+strings.Join(hist, ";"), interesting, "history")
	})
}
