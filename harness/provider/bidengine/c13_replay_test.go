package bidengine

// Replay tier for C13: the shrunk schedules of the findings D8 (order closed while Reserve
// is in flight, Reserve then succeeds) and D12 (shutdown while the existing-bid query is in
// flight, the query then finds the bid), plus two independently seeded shapes (a bid found
// on chain must be closed even if no reservation was made; a lease for a sibling group does
// not end the order as won). Scripted, no generator.

import (
	"errors"
	"fmt"
	"strings"
	"testing"
	"time"

	lifecycle "github.com/boz/go-lifecycle"
	sdk "github.com/cosmos/cosmos-sdk/types"
	"github.com/tendermint/tendermint/libs/log"

	clientmocks "github.com/ovrclk/akash/client/mocks"
	"github.com/ovrclk/akash/provider/session"
	"github.com/ovrclk/akash/pubsub"
	atypes "github.com/ovrclk/akash/types"
	dtypes "github.com/ovrclk/akash/x/deployment/types"
	mtypes "github.com/ovrclk/akash/x/market/types"
	ptypes "github.com/ovrclk/akash/x/provider/types"
)

type c13Script struct {
	t   *testing.T
	h   *c13Harness
	bus pubsub.Bus
	svc *service
	o   *order
	oid mtypes.OrderID
}

func c13NewScript(t *testing.T, checkExisting bool, bidFound string) *c13Script {
	h := &c13Harness{arrivals: make(chan *c13Call, 64), pending: map[string]*c13Call{}, provider: c13Addr("verif-c13-provider"), bidFound: bidFound}
	owner := c13Addr("verif-c13-owner")
	oid := mtypes.OrderID{Owner: owner.String(), DSeq: 7, GSeq: 1, OSeq: 1}
	h.group = dtypes.Group{GroupID: oid.GroupID(), State: dtypes.GroupOpen, GroupSpec: dtypes.GroupSpec{
		Name: "g",
		Resources: []dtypes.Resource{{
			Resources: atypes.ResourceUnits{
				CPU:     &atypes.CPU{Units: atypes.NewResourceValue(100)},
				Memory:  &atypes.Memory{Quantity: atypes.NewResourceValue(16 << 20)},
				Storage: &atypes.Storage{Quantity: atypes.NewResourceValue(64 << 20)},
			},
			Count: 1, Price: sdk.NewInt64Coin("uakt", 10),
		}},
	}}
	h.price = sdk.NewInt64Coin("uakt", 5)
	bus := pubsub.NewBus()
	sub, err := bus.Subscribe()
	if err != nil {
		t.Fatalf("subscribe: %v", err)
	}
	cl := &clientmocks.Client{}
	cl.On("Query").Return(&c13Query{QueryClient: &clientmocks.QueryClient{}, h: h})
	cl.On("Tx").Return(&c13Tx{h: h})
	sess := session.New(log.NewNopLogger(), cl, &ptypes.Provider{Owner: h.provider.String(), Attributes: atypes.Attributes{{Key: "region", Value: "us"}}})
	svc := &service{session: sess, cluster: &c13Cluster{h: h}, bus: bus, sub: sub, lc: lifecycle.New(), drainch: make(chan *order, 4)}
	cfg := Config{PricingStrategy: &c13Pricing{h: h}, Deposit: sdk.NewInt64Coin("uakt", 5)}
	o, err := newOrderInternal(svc, oid, cfg, &c13Pass{h: h}, checkExisting, nil)
	if err != nil {
		t.Fatalf("newOrderInternal: %v", err)
	}
	return &c13Script{t: t, h: h, bus: bus, svc: svc, o: o, oid: oid}
}

// expect waits until the order has entered the named gated step and returns the call.
func (s *c13Script) expect(step string) *c13Call {
	if c, ok := s.h.pending[step]; ok { // arrived earlier while another step was awaited
		delete(s.h.pending, step)
		return c
	}
	deadline := time.After(c13Wait)
	for {
		select {
		case c := <-s.h.arrivals:
			if c.step == step {
				return c
			}
			s.h.pending[c.step] = c
		case <-deadline:
			s.t.Fatalf("VERIF-INCONCLUSIVE: the order never reached step %q; log=%v", step, s.log())
		}
	}
}

func (s *c13Script) log() []string {
	s.h.mu.Lock()
	defer s.h.mu.Unlock()
	return append([]string(nil), s.h.log...)
}

// finish completes whatever the order still starts (successfully) until it terminates.
func (s *c13Script) finish() {
	for _, step := range []string{"group", "bidquery", "auditor", "reserve", "pricing", "createbid", "closebid", "unreserve", "othertx"} {
		if c, ok := s.h.pending[step]; ok {
			delete(s.h.pending, step)
			c.release <- nil
		}
	}
	deadline := time.After(c13Wait)
	for {
		select {
		case c := <-s.h.arrivals:
			c.release <- nil
		case <-s.o.lc.Done():
			return
		case <-deadline:
			s.t.Fatalf("C13 VIOLATION key=c13-never-terminates: order monitor still running %v after everything in flight was completed; log=%v", c13Wait, s.log())
		}
	}
}

func (s *c13Script) waitExiting(what string) {
	select {
	case <-s.o.lc.ShuttingDown():
	case <-time.After(c13Wait):
		s.t.Fatalf("C13 VIOLATION key=c13-ignores-%s: order monitor did not stop", what)
	}
}

func (s *c13Script) count(entry string) int {
	n := 0
	for _, l := range s.log() {
		if l == entry {
			n++
		}
	}
	return n
}

func TestVerif_C13_Replay(t *testing.T) {
	t.Run("D8-order-closed-while-reserve-in-flight", func(t *testing.T) {
		s := c13NewScript(t, false, "notfound")
		defer s.bus.Close()
		s.expect("group").release <- nil
		reserve := s.expect("reserve")
		_ = s.bus.Publish(mtypes.EventOrderClosed{ID: s.oid})
		s.waitExiting("order-closed")
		reserve.release <- nil // the reservation succeeds after the order was closed
		s.finish()
		if s.count("call:unreserve") == 0 { // the script let Reserve succeed, whenever the order looked at the result
			t.Fatalf("C13 VIOLATION key=c13-leak: the order was closed while Reserve was in flight, Reserve then succeeded and the reservation was never released; log=%v", s.log())
		}
	})
	t.Run("D12-shutdown-while-existing-bid-query-in-flight", func(t *testing.T) {
		s := c13NewScript(t, true, "found")
		defer s.bus.Close()
		q := s.expect("bidquery")
		s.svc.lc.ShutdownInitiated(nil)
		s.waitExiting("shutdown")
		q.release <- nil // the query finds the provider's bid on chain
		s.finish()
		if s.count("call:closebid") == 0 { // the script let the query find the bid
			t.Fatalf("C13 VIOLATION key=c13-leak: a bid was found on chain while shutting down and no close-bid transaction was submitted; log=%v", s.log())
		}
	})
	t.Run("seeded-existing-bid-closed-without-reservation", func(t *testing.T) {
		s := c13NewScript(t, true, "found")
		defer s.bus.Close()
		s.expect("bidquery").release <- nil // bid found on chain
		g := s.expect("group")
		g.release <- errors.New("injected failure") // handling fails before any reservation
		s.finish()
		if s.count("call:closebid") == 0 {
			t.Fatalf("C13 VIOLATION key=c13-leak: a bid exists on chain, handling failed before a reservation was made, and no close-bid transaction was submitted; log=%v", s.log())
		}
	})
	t.Run("seeded-lease-for-sibling-group", func(t *testing.T) {
		s := c13NewScript(t, false, "notfound")
		defer s.bus.Close()
		s.expect("group").release <- nil
		s.expect("reserve").release <- nil
		s.expect("pricing").release <- nil
		s.expect("createbid").release <- nil
		// a lease of the same deployment but another group goes to this provider: not ours
		lid := mtypes.MakeLeaseID(mtypes.MakeBidID(s.oid, s.h.provider))
		lid.GSeq = 9
		_ = s.bus.Publish(mtypes.EventLeaseCreated{ID: lid, Price: s.h.price})
		time.Sleep(50 * time.Millisecond)
		select {
		case <-s.o.lc.ShuttingDown():
			// it stopped: then it must not have stopped as "won" (nothing released, bid left open)
			s.finish()
			if s.count("call:unreserve") == 0 || s.count("call:closebid") == 0 {
				t.Fatalf("C13 VIOLATION key=c13-leak: a lease for another group ended the order as won: reservation and bid were left behind; log=%v", s.log())
			}
			return
		default:
		}
		// still waiting: close the order, everything must be released
		_ = s.bus.Publish(mtypes.EventOrderClosed{ID: s.oid})
		s.waitExiting("order-closed")
		s.finish()
		if s.count("call:unreserve") == 0 || s.count("call:closebid") == 0 {
			t.Fatalf("C13 VIOLATION key=c13-leak: order closed after a bid was placed, but %s; log=%v", strings.TrimSpace(fmt.Sprintf("unreserve calls=%d close-bid calls=%d", s.count("call:unreserve"), s.count("call:closebid"))), s.log())
		}
	})
}
