package keeper_test

// C17 — Certificates: unique per owner+serial, revocation permanent, always listable.
// rapid state machine over the real keeper and gRPC querier against a map model.

import (
	"crypto/ecdsa"
	"crypto/elliptic"
	"crypto/rand"
	"crypto/x509"
	"crypto/x509/pkix"
	"encoding/pem"
	"fmt"
	"github.com/ovrclk/akash/x/cert/handler"
	"math/big"
	"sort"
	"strings"
	"sync"
	"testing"
	"time"

	"github.com/cosmos/cosmos-sdk/crypto/keys/secp256k1"
	"github.com/cosmos/cosmos-sdk/store"
	sdk "github.com/cosmos/cosmos-sdk/types"
	sdkquery "github.com/cosmos/cosmos-sdk/types/query"
	"github.com/tendermint/tendermint/libs/log"
	tmproto "github.com/tendermint/tendermint/proto/tendermint/types"
	dbm "github.com/tendermint/tm-db"
	"pgregory.net/rapid"

	"github.com/ovrclk/akash/x/cert/keeper"
	"github.com/ovrclk/akash/x/cert/types"
)

const c17Rule = "history in which a listing (keeper iterator or gRPC query, any filter/page size) is made while >=2 certificates of one owner exist whose serial byte encodings are prefixes of one another (1/256/65536, 255/65535, ...) or while a certificate with serial 0 exists"

type c17Cert struct {
	owner  int
	serial *big.Int
	cert   []byte
	pub    []byte
	cert2  []byte // another certificate for the same owner and serial
	pub2   []byte
}

var c17Once sync.Once
var c17Owners []sdk.AccAddress
var c17Pool [][]c17Cert // per owner

func c17Serials() []*big.Int {
	var out []*big.Int
	for _, s := range []string{"0", "1", "2", "255", "256", "257", "65535", "65536", "16777216", "18446744073709551615", "18446744073709551616",
		"365375409332725729550921208179070754913983135744" /* 2^158 */, "91343852333181432387730302044767688728495783935" /* 2^156-1 */, "1311768467463790320" /* 0x1234567890ABCDF0 */} {
		n, _ := new(big.Int).SetString(s, 10)
		out = append(out, n)
	}
	return out
}

func c17Make(cn string, serial *big.Int) ([]byte, []byte, error) {
	priv, err := ecdsa.GenerateKey(elliptic.P256(), rand.Reader)
	if err != nil {
		return nil, nil, err
	}
	tmpl := x509.Certificate{
		SerialNumber:          serial,
		Subject:               pkix.Name{CommonName: cn},
		Issuer:                pkix.Name{CommonName: cn},
		NotBefore:             time.Now().Add(-time.Hour),
		NotAfter:              time.Now().Add(365 * 24 * time.Hour),
		KeyUsage:              x509.KeyUsageDataEncipherment | x509.KeyUsageKeyEncipherment,
		ExtKeyUsage:           []x509.ExtKeyUsage{x509.ExtKeyUsageClientAuth},
		BasicConstraintsValid: true,
	}
	der, err := x509.CreateCertificate(rand.Reader, &tmpl, &tmpl, priv.Public(), priv)
	if err != nil {
		return nil, nil, err
	}
	if _, err := x509.ParseCertificate(der); err != nil {
		return nil, nil, err
	}
	pubDer, err := x509.MarshalPKIXPublicKey(priv.Public())
	if err != nil {
		return nil, nil, err
	}
	return pem.EncodeToMemory(&pem.Block{Type: types.PemBlkTypeCertificate, Bytes: der}),
		pem.EncodeToMemory(&pem.Block{Type: types.PemBlkTypeECPublicKey, Bytes: pubDer}), nil
}

func c17Init() {
	c17Once.Do(func() {
		for i := 0; i < 3; i++ {
			priv := secp256k1.GenPrivKeyFromSecret([]byte(fmt.Sprintf("verif-c17-owner-%d", i)))
			c17Owners = append(c17Owners, sdk.AccAddress(priv.PubKey().Address()))
		}
		c17Pool = make([][]c17Cert, 3)
		for i, o := range c17Owners {
			for _, s := range c17Serials() {
				c, p, err := c17Make(o.String(), s)
				if err != nil {
					// the toolchain's x509 refuses this serial: outside what a client can register
					vsNote(fmt.Sprintf("serial %s not producible by crypto/x509: %v", s, err))
					continue
				}
				// a second, different certificate (fresh key pair) with the same owner and serial
				c2, p2, err := c17Make(o.String(), s)
				if err != nil {
					continue
				}
				c17Pool[i] = append(c17Pool[i], c17Cert{owner: i, serial: s, cert: c, pub: p, cert2: c2, pub2: p2})
			}
		}
	})
}

type c17Entry struct {
	owner   int
	serial  *big.Int
	revoked bool
	pemCert []byte
}

func c17Key(owner int, serial *big.Int) string { return fmt.Sprintf("%d/%s", owner, serial.String()) }

func c17Setup() (sdk.Context, keeper.Keeper) {
	key := sdk.NewKVStoreKey(types.StoreKey)
	db := dbm.NewMemDB()
	ms := store.NewCommitMultiStore(db)
	ms.MountStoreWithDB(key, sdk.StoreTypeIAVL, db)
	if err := ms.LoadLatestVersion(); err != nil {
		panic(err)
	}
	ctx := sdk.NewContext(ms, tmproto.Header{Time: time.Unix(0, 0)}, false, log.NewNopLogger())
	return ctx, keeper.NewKeeper(types.ModuleCdc, key)
}

func c17PrefixRelated(a, b *big.Int) bool {
	x, y := a.Bytes(), b.Bytes()
	if len(x) > len(y) {
		x, y = y, x
	}
	if len(x) == len(y) {
		return false
	}
	return strings.HasPrefix(string(y), string(x))
}

func TestVerif_C17(t *testing.T) {
	vsInit("C17", c17Rule)
	defer vsFlush()
	c17Init()
	rapid.Check(t, func(t *rapid.T) {
		ctx, k := c17Setup()
		q := k.Querier()
		model := map[string]*c17Entry{}
		var ops []string
		nontrivial := false
		logop := func(f string, a ...interface{}) { ops = append(ops, fmt.Sprintf(f, a...)) }
		defer func() { vsCase("C17|"+strings.Join(ops, ";"), nontrivial) }()
		fail := func(key, f string, a ...interface{}) {
			if vsKnown(key) {
				t.Skip("known finding " + key)
			}
			t.Fatalf("C17 VIOLATION key=%s: %s\n-- history: %s", key, fmt.Sprintf(f, a...), strings.Join(ops, "; "))
		}
		guard := func(what string, f func()) {
			// only code under test runs inside f; any panic is the code's ("listings never fail")
			var pv interface{}
			func() {
				defer func() { pv = recover() }()
				f()
			}()
			if pv != nil {
				fail("c17-panic", "%s panicked: %v", what, pv)
			}
		}
		hardState := func() bool {
			for _, a := range model {
				if a.serial.Sign() == 0 {
					return true
				}
				for _, b := range model {
					if a != b && a.owner == b.owner && c17PrefixRelated(a.serial, b.serial) {
						return true
					}
				}
			}
			return false
		}
		matches := func(e *c17Entry, owner int, state string, serial *big.Int) bool {
			if owner >= 0 && e.owner != owner {
				return false
			}
			if state == "valid" && e.revoked {
				return false
			}
			if state == "revoked" && !e.revoked {
				return false
			}
			if serial != nil && owner >= 0 && e.serial.Cmp(serial) != 0 {
				return false
			}
			return true
		}
		// knownIncomplete: finding key under which an incomplete listing is a recorded finding for this call shape ("" = none)
		knownIncomplete := ""
		checkList := func(what string, got types.CertificatesResponse, owner int, state string, serial *big.Int, exact bool) {
			seen := map[string]int{}
			for _, r := range got {
				// identify the entry by its certificate bytes (independent of the serial the listing reports)
				var ent *c17Entry
				for _, e := range model {
					if string(e.pemCert) == string(r.Certificate.Cert) {
						ent = e
					}
				}
				if ent == nil {
					fail("c17-listing-unknown-entry", "%s returned a certificate that was never registered", what)
				}
				if r.Serial != ent.serial.String() {
					fail("c17-listing-wrong-serial", "%s reports serial %s for the certificate registered with serial %s", what, r.Serial, ent.serial)
				}
				wantState := types.CertificateValid
				if ent.revoked {
					wantState = types.CertificateRevoked
				}
				if r.Certificate.State != wantState {
					fail("c17-listing-wrong-state", "%s reports state %s for %s, model says %s", what, r.Certificate.State, c17Key(ent.owner, ent.serial), wantState)
				}
				seen[c17Key(ent.owner, ent.serial)]++
			}
			var keys []string
			for kk := range model {
				keys = append(keys, kk)
			}
			sort.Strings(keys)
			for _, kk := range keys {
				e := model[kk]
				if matches(e, owner, state, serial) {
					if seen[kk] == 0 && knownIncomplete != "" && vsKnown(knownIncomplete) {
						vsLabel("known-shape-incomplete-listing")
						continue
					}
					if seen[kk] != 1 {
						key := "c17-listing-incomplete"
						if seen[kk] == 0 && knownIncomplete != "" {
							key = knownIncomplete
						}
						fail(key, "%s contains matching certificate %s %d times (want exactly once)", what, kk, seen[kk])
					}
				} else if exact && seen[kk] != 0 {
					fail("c17-listing-extra", "%s contains %s which does not match the filter", what, kk)
				}
			}
		}

		t.Repeat(map[string]func(*rapid.T){
			"create": func(t *rapid.T) {
				o := rapid.IntRange(0, 2).Draw(t, "owner")
				c := c17Pool[o][rapid.IntRange(0, len(c17Pool[o])-1).Draw(t, "cert")]
				signer := o
				if rapid.IntRange(0, 5).Draw(t, "foreignSigner") == 0 {
					signer = (o + 1 + rapid.IntRange(0, 1).Draw(t, "other")) % 3
				}
				// sometimes the other certificate with the same owner and serial (e.g. after the first was revoked)
				twin := rapid.IntRange(0, 3).Draw(t, "twinCertificate") == 0
				if twin {
					c.cert, c.pub = c.cert2, c.pub2
				}
				msg := types.MsgCreateCertificate{Owner: c17Owners[signer].String(), Cert: c.cert, Pubkey: c.pub}
				vbErr := msg.ValidateBasic()
				var err error
				guard("CreateCertificate", func() { err = k.CreateCertificate(ctx, c17Owners[signer], c.cert, c.pub) })
				kk := c17Key(o, c.serial)
				logop("create(owner%d,serial=%s,signer=owner%d,twin=%v)->%v", o, c.serial, signer, twin, err == nil)
				if signer != o {
					if vbErr == nil || err == nil {
						fail("c17-foreign-registration", "certificate naming owner%d was accepted for signer owner%d (ValidateBasic err=%v, keeper err=%v)", o, signer, vbErr, err)
					}
					return
				}
				if vbErr != nil {
					fail("c17-own-cert-rejected", "ValidateBasic rejected the owner's own certificate: %v", vbErr)
				}
				if _, exists := model[kk]; exists {
					if err == nil {
						fail("c17-duplicate-accepted", "second registration of %s was accepted", kk)
					}
					return
				}
				if err != nil {
					fail("c17-create-rejected", "registration of new certificate %s failed: %v", kk, err)
				}
				model[kk] = &c17Entry{owner: o, serial: c.serial, pemCert: c.cert}
			},
			"revoke": func(t *rapid.T) {
				o := rapid.IntRange(0, 2).Draw(t, "owner")
				c := c17Pool[o][rapid.IntRange(0, len(c17Pool[o])-1).Draw(t, "cert")]
				kk := c17Key(o, c.serial)
				var err error
				// either directly on the keeper, or as the revoke message a client sends (the serial is
				// a decimal string there; a leading zero does not change the number)
				form := rapid.SampledFrom([]string{"keeper", "msg", "msg-leading-zero"}).Draw(t, "revokeVia")
				switch form {
				case "keeper":
					guard("RevokeCertificate", func() { err = k.RevokeCertificate(ctx, types.CertID{Owner: c17Owners[o], Serial: *c.serial}) })
				default:
					str := c.serial.String()
					if form == "msg-leading-zero" {
						str = "0" + str
					}
					msg := &types.MsgRevokeCertificate{ID: types.CertificateID{Owner: c17Owners[o].String(), Serial: str}}
					if vb := msg.ValidateBasic(); vb != nil {
						fail("c17-revoke-message-rejected", "ValidateBasic rejects a revoke message with serial %q: %v", str, vb)
					}
					guard("MsgRevokeCertificate", func() {
						_, err = handler.NewMsgServerImpl(k).RevokeCertificate(sdk.WrapSDKContext(ctx), msg)
					})
				}
				logop("revoke(owner%d,%s,via=%s)->%v", o, c.serial, form, err == nil)
				e, exists := model[kk]
				switch {
				case !exists && err == nil:
					fail("c17-revoke-missing", "revocation of unregistered %s succeeded", kk)
				case exists && e.revoked && err == nil:
					fail("c17-revoke-twice", "second revocation of %s succeeded", kk)
				case exists && !e.revoked && err != nil:
					fail("c17-revoke-rejected", "revocation of valid %s failed: %v", kk, err)
				case exists && !e.revoked:
					e.revoked = true
				}
			},
			"onDiscardedBranch": func(t *rapid.T) {
				// a create / revoke executed on a branch of the state that is thrown away (a
				// simulation, a transaction that fails later): nothing of it may be visible afterwards
				o := rapid.IntRange(0, 2).Draw(t, "owner")
				c := c17Pool[o][rapid.IntRange(0, len(c17Pool[o])-1).Draw(t, "cert")]
				cctx, _ := ctx.CacheContext()
				if rapid.Bool().Draw(t, "revoke") {
					guard("RevokeCertificate(discarded)", func() { _ = k.RevokeCertificate(cctx, types.CertID{Owner: c17Owners[o], Serial: *c.serial}) })
					logop("discarded:revoke(owner%d,%s)", o, c.serial)
				} else {
					guard("CreateCertificate(discarded)", func() { _ = k.CreateCertificate(cctx, c17Owners[o], c.cert, c.pub) })
					logop("discarded:create(owner%d,%s)", o, c.serial)
				}
				kk := c17Key(o, c.serial)
				var resp types.CertificateResponse
				var found bool
				guard("GetCertificateByID", func() { resp, found = k.GetCertificateByID(ctx, types.CertID{Owner: c17Owners[o], Serial: *c.serial}) })
				e, exists := model[kk]
				if found != exists || (found && (resp.Certificate.State == types.CertificateRevoked) != e.revoked) {
					fail("c17-discarded-branch-visible", "after an operation on a discarded branch, %s is found=%v state=%s; by the committed history it is registered=%v revoked=%v", kk, found, resp.Certificate.State, exists, exists && e.revoked)
				}
			},
			"get": func(t *rapid.T) {
				o := rapid.IntRange(0, 2).Draw(t, "owner")
				c := c17Pool[o][rapid.IntRange(0, len(c17Pool[o])-1).Draw(t, "cert")]
				kk := c17Key(o, c.serial)
				var resp types.CertificateResponse
				var found bool
				guard("GetCertificateByID", func() { resp, found = k.GetCertificateByID(ctx, types.CertID{Owner: c17Owners[o], Serial: *c.serial}) })
				e, exists := model[kk]
				if found != exists {
					fail("c17-get", "GetCertificateByID(%s) found=%v, model says %v", kk, found, exists)
				}
				if exists {
					if resp.Serial != c.serial.String() || string(resp.Certificate.Cert) != string(e.pemCert) || (resp.Certificate.State == types.CertificateRevoked) != e.revoked {
						fail("c17-get-content", "GetCertificateByID(%s) returned serial %s state %s (model revoked=%v)", kk, resp.Serial, resp.Certificate.State, e.revoked)
					}
				}
			},
			"iterate": func(t *rapid.T) {
				if hardState() {
					nontrivial = true
				}
				kind := rapid.IntRange(0, 3).Draw(t, "kind")
				o := rapid.IntRange(0, 2).Draw(t, "owner")
				st := rapid.SampledFrom([]types.Certificate_State{types.CertificateValid, types.CertificateRevoked}).Draw(t, "state")
				stName := "valid"
				if st == types.CertificateRevoked {
					stName = "revoked"
				}
				var got types.CertificatesResponse
				collect := func(c types.CertificateResponse) bool { got = append(got, c); return false }
				switch kind {
				case 0:
					logop("WithCertificates")
					guard("WithCertificates", func() { k.WithCertificates(ctx, collect) })
					checkList("WithCertificates", got, -1, "", nil, true)
				case 1:
					logop("WithCertificatesState(%s)", stName)
					guard("WithCertificatesState", func() { k.WithCertificatesState(ctx, st, collect) })
					checkList("WithCertificatesState("+stName+")", got, -1, stName, nil, true)
				case 2:
					logop("WithOwner(owner%d)", o)
					guard("WithOwner", func() { k.WithOwner(ctx, c17Owners[o], collect) })
					checkList(fmt.Sprintf("WithOwner(owner%d)", o), got, o, "", nil, true)
				default:
					logop("WithOwnerState(owner%d,%s)", o, stName)
					guard("WithOwnerState", func() { k.WithOwnerState(ctx, c17Owners[o], st, collect) })
					checkList(fmt.Sprintf("WithOwnerState(owner%d,%s)", o, stName), got, o, stName, nil, true)
				}
			},
			"query": func(t *rapid.T) {
				if hardState() {
					nontrivial = true
				}
				owner := rapid.IntRange(-1, 2).Draw(t, "owner")
				state := rapid.SampledFrom([]string{"", "valid", "revoked"}).Draw(t, "state")
				var serial *big.Int
				filter := types.CertificateFilter{State: state}
				if owner >= 0 {
					filter.Owner = c17Owners[owner].String()
					if rapid.IntRange(0, 3).Draw(t, "withSerial") == 0 {
						serial = c17Pool[owner][rapid.IntRange(0, len(c17Pool[owner])-1).Draw(t, "serial")].serial
						filter.Serial = serial.String()
					}
				}
				limit := uint64(rapid.IntRange(1, 5).Draw(t, "limit"))
				useOffset := rapid.Bool().Draw(t, "offsetPaging")
				countTotal := rapid.Bool().Draw(t, "countTotal")
				what := fmt.Sprintf("Query(owner=%d,state=%q,serial=%v,limit=%d,offset=%v,count=%v)", owner, state, serial, limit, useOffset, countTotal)
				logop("%s", what)
				var all types.CertificatesResponse
				var nextKey []byte
				offset := uint64(0)
				for page := 0; page < 200; page++ {
					req := &types.QueryCertificatesRequest{Filter: filter, Pagination: &sdkquery.PageRequest{Limit: limit, CountTotal: countTotal}}
					if useOffset {
						req.Pagination.Offset = offset
					} else {
						req.Pagination.Key = nextKey
					}
					var res *types.QueryCertificatesResponse
					var err error
					guard(what, func() { res, err = q.Certificates(sdk.WrapSDKContext(ctx), req) })
					if err != nil {
						fail("c17-query-error", "%s page %d failed: %v", what, page, err)
					}
					all = append(all, res.Certificates...)
					if res.Pagination == nil {
						break // direct owner+serial lookup is not paginated
					}
					if useOffset {
						if uint64(len(res.Certificates)) < limit {
							break
						}
						offset += limit
					} else {
						nextKey = res.Pagination.NextKey
						if len(nextKey) == 0 {
							break
						}
					}
				}
				// Call shape of a recorded finding in the cosmos-sdk dependency: FilteredPaginate with
				// CountTotal on the first (key-less) page lets non-matching entries that follow the
				// (limit+1)-th match overwrite NextKey, so key-paged, state-filtered listings skip entries.
				if countTotal && !useOffset && state != "" {
					knownIncomplete = "c17-sdk-filteredpaginate-counttotal-nextkey"
				}
				checkList(what, all, owner, state, serial, true)
				knownIncomplete = ""
			},
		})
	})
}
