package app

// Oracles C01 (conservation), C03 (escrow record consistency / close takes effect),
// C05 (money follows lifecycle).

import (
	"bytes"
	"fmt"
	"testing"

	sdk "github.com/cosmos/cosmos-sdk/types"

	dtypes "github.com/ovrclk/akash/x/deployment/types"
	"github.com/ovrclk/akash/x/escrow"
	etypes "github.com/ovrclk/akash/x/escrow/types"
	mtypes "github.com/ovrclk/akash/x/market/types"
)

// ------------------------------------------------------------------ C01

type cmC01 struct {
	cmBaseOracle
	deposited, paidOut bool
}

const c01Rule = "chain-machine history (signed txs through DeliverTx on the real app) containing >=1 deposit into escrow and >=1 payout or refund out of escrow; distinct = distinct operation sequences"

func (o *cmC01) check(m *chainMachine, pre, post *cmSnap, what string) {
	// (1) module account = sum of recorded balances
	sum, sum2 := sdk.ZeroInt(), sdk.ZeroInt()
	addRec := func(c sdk.Coin, rec string) {
		switch c.Denom {
		case cmDenom:
			sum = sum.Add(c.Amount)
		case cmDenom2:
			sum2 = sum2.Add(c.Amount)
		default:
			m.fatalf("c01-record-denom", "after %s: escrow record %s is kept in denomination %q nobody deposited", what, rec, c.Denom)
		}
	}
	for _, a := range post.accounts {
		addRec(a.Balance, cmAccKey(a.ID))
	}
	for _, p := range post.payments {
		addRec(p.Balance, cmPayKey(p))
	}
	if !sum.Equal(post.escrowBank) {
		m.fatalf("c01-module-balance", "after %s: escrow module account holds %s uakt but recorded account+payment balances sum to %s", what, post.escrowBank, sum)
	}
	if !sum2.Equal(post.escrowBank2) {
		m.fatalf("c01-module-balance-denom2", "after %s: escrow module account holds %s %s but recorded account+payment balances in that denomination sum to %s", what, post.escrowBank2, cmDenom2, sum2)
	}
	// the second denomination is conserved too: whatever left the actors is in escrow, and vice versa
	d2 := post.escrowBank2.Sub(pre.escrowBank2)
	for _, a := range m.actors {
		d2 = d2.Add(post.bank2[a.bech].Sub(pre.bank2[a.bech]))
	}
	if !d2.IsZero() {
		m.fatalf("c01-denom2-conservation", "after %s: %s %s were created or destroyed across actors and the escrow module", what, d2, cmDenom2)
	}
	// (2) per actor: bank delta explained by own deposits / refunds / payouts only
	preAcc := map[string]etypes.Account{}
	for _, a := range pre.accounts {
		preAcc[cmAccKey(a.ID)] = a
	}
	prePay := map[string]etypes.Payment{}
	for _, p := range pre.payments {
		prePay[cmPayKey(p)] = p
	}
	expect := map[string]sdk.Int{}
	add := func(owner string, x sdk.Int) {
		if _, ok := expect[owner]; !ok {
			expect[owner] = sdk.ZeroInt()
		}
		expect[owner] = expect[owner].Add(x)
	}
	dTransferred := sdk.ZeroInt()
	for _, a := range post.accounts {
		old, ok := preAcc[cmAccKey(a.ID)]
		ob, ot := sdk.ZeroInt(), sdk.ZeroInt()
		if ok {
			ob, ot = old.Balance.Amount, old.Transferred.Amount
			if old.Owner != a.Owner {
				m.fatalf("c01-owner-changed", "after %s: escrow account %s changed owner", what, cmAccKey(a.ID))
			}
		}
		d := a.Balance.Amount.Add(a.Transferred.Amount).Sub(ob).Sub(ot)
		add(a.Owner, d.Neg())
		dTransferred = dTransferred.Add(a.Transferred.Amount.Sub(ot))
		if d.IsPositive() {
			o.deposited = true
		}
		if d.IsNegative() {
			o.paidOut = true
		}
	}
	dCredited := sdk.ZeroInt()
	for _, p := range post.payments {
		old, ok := prePay[cmPayKey(p)]
		ob, ow := sdk.ZeroInt(), sdk.ZeroInt()
		if ok {
			ob, ow = old.Balance.Amount, old.Withdrawn.Amount
		}
		add(p.Owner, p.Withdrawn.Amount.Sub(ow))
		if p.Withdrawn.Amount.Sub(ow).IsPositive() {
			o.paidOut = true
		}
		dCredited = dCredited.Add(p.Balance.Amount.Add(p.Withdrawn.Amount).Sub(ob).Sub(ow))
	}
	if len(post.accounts) < len(pre.accounts) || len(post.payments) < len(pre.payments) {
		m.fatalf("c01-record-removed", "after %s: an escrow record disappeared", what)
	}
	for _, a := range m.actors {
		got := post.bank[a.bech].Sub(pre.bank[a.bech])
		want, ok := expect[a.bech]
		if !ok {
			want = sdk.ZeroInt()
		}
		if !got.Equal(want) {
			m.fatalf("c01-actor-delta", "after %s: bank balance of %s changed by %s but its own escrow deposits/refunds/payouts explain %s", what, a.name, got, want)
		}
	}
	// (3) nothing created or destroyed by settlement
	if !dTransferred.Equal(dCredited) {
		m.fatalf("c01-settlement", "after %s: accounts transferred %s in total but payments were credited %s", what, dTransferred, dCredited)
	}
}

func (o *cmC01) afterTx(m *chainMachine, tx *cmTx) { o.check(m, tx.pre, tx.post, tx.label) }
func (o *cmC01) afterAdvance(m *chainMachine, pre, post *cmSnap) {
	o.check(m, pre, post, "advancing blocks")
}
func (o *cmC01) nontrivial(m *chainMachine) bool { return o.deposited && o.paidOut }

func TestVerif_C01(t *testing.T) {
	cmRun(t, "C01", c01Rule, func() cmOracle { return &cmC01{} }, cmDefaultProfile, false)
}

// ------------------------------------------------------------------ C03

type cmC03 struct {
	cmBaseOracle
	zeroClose bool
}

const c03Rule = "chain-machine history containing a successful close (deployment, lease or bid) issued with zero elapsed blocks since the account's last settlement or with zero accrued payment balance"

func (o *cmC03) invariants(m *chainMachine, pre, post *cmSnap, what string) {
	anyOpen := false
	for _, p := range post.payments {
		a, ok := post.account(p.AccountID)
		if !ok {
			m.fatalf("c03-payment-without-account", "after %s: payment %s has no account", what, cmPayKey(p))
		}
		if p.State == etypes.PaymentOpen {
			anyOpen = true
			if a.State != etypes.AccountOpen {
				m.fatalf("c03-open-payment-closed-account", "after %s: payment %s is open but its account is %s", what, cmPayKey(p), a.State)
			}
		}
		if p.State == etypes.PaymentOverdrawn && a.State != etypes.AccountOverdrawn {
			m.fatalf("c03-overdrawn-payment", "after %s: payment %s is overdrawn but its account is %s", what, cmPayKey(p), a.State)
		}
		if p.State != etypes.PaymentOpen && !p.Balance.Amount.IsZero() {
			m.fatalf("c03-closed-payment-balance", "after %s: payment %s is %s with balance %s", what, cmPayKey(p), p.State, p.Balance)
		}
	}
	for _, a := range post.accounts {
		if a.State == etypes.AccountOpen {
			anyOpen = true
		} else if !a.Balance.Amount.IsZero() {
			m.fatalf("c03-closed-account-balance", "after %s: account %s is %s with balance %s", what, cmAccKey(a.ID), a.State, a.Balance)
		}
	}
	if !anyOpen && !post.escrowBank.IsZero() {
		m.fatalf("c03-residue", "after %s: nothing is open but the escrow module still holds %s", what, post.escrowBank)
	}
	// closed / overdrawn records never change again
	cdc := m.app.appCodec
	for _, op := range pre.payments {
		if op.State == etypes.PaymentOpen {
			continue
		}
		np, ok := post.payment(op.AccountID, op.PaymentID)
		if !ok || !bytes.Equal(cdc.MustMarshalBinaryBare(&op), cdc.MustMarshalBinaryBare(&np)) {
			m.fatalf("c03-closed-payment-changed", "after %s: %s payment %s changed: %v -> %v", what, op.State, cmPayKey(op), op, np)
		}
	}
	for _, oa := range pre.accounts {
		if oa.State == etypes.AccountOpen {
			continue
		}
		na, ok := post.account(oa.ID)
		if !ok || !bytes.Equal(cdc.MustMarshalBinaryBare(&oa), cdc.MustMarshalBinaryBare(&na)) {
			m.fatalf("c03-closed-account-changed", "after %s: %s account %s changed: %v -> %v", what, oa.State, cmAccKey(oa.ID), oa, na)
		}
	}
	// the chain's own validator
	gs := escrow.ExportGenesis(m.ctx(), m.app.keeper.escrow)
	if err := escrow.ValidateGenesis(gs); err != nil {
		m.fatalf("c03-genesis", "after %s: exported escrow state fails the chain's genesis validation: %v", what, err)
	}
	// the exported state IS the state: every exported record equals the stored one (decoded
	// record by record from the raw store), so the clauses above hold for the export as well
	if len(gs.Accounts) != len(post.accounts) || len(gs.Payments) != len(post.payments) {
		m.fatalf("c03-genesis-export", "after %s: export has %d accounts / %d payments, the store has %d / %d", what, len(gs.Accounts), len(gs.Payments), len(post.accounts), len(post.payments))
	}
	for _, a := range gs.Accounts {
		st, ok := post.account(a.ID)
		if !ok || st.State != a.State || st.Owner != a.Owner || !st.Balance.IsEqual(a.Balance) || !st.Transferred.IsEqual(a.Transferred) || st.SettledAt != a.SettledAt {
			m.fatalf("c03-genesis-export", "after %s: exported account %s = {%s bal %s transferred %s settled %d} differs from the stored record %s", what, cmAccKey(a.ID), a.State, a.Balance, a.Transferred, a.SettledAt, fmtAcc(st, ok))
		}
	}
	for _, p := range gs.Payments {
		st, ok := post.payment(p.AccountID, p.PaymentID)
		if !ok || st.State != p.State || st.Owner != p.Owner || !st.Balance.IsEqual(p.Balance) || !st.Rate.IsEqual(p.Rate) || !st.Withdrawn.IsEqual(p.Withdrawn) {
			m.fatalf("c03-genesis-export", "after %s: exported payment %s = {%s rate %s bal %s withdrawn %s} differs from the stored record %s", what, cmPayKey(p), p.State, p.Rate, p.Balance, p.Withdrawn, fmtPay(st, ok))
		}
	}
}

func (o *cmC03) afterAdvance(m *chainMachine, pre, post *cmSnap) {
	o.invariants(m, pre, post, "advancing blocks")
}

func (o *cmC03) afterTx(m *chainMachine, tx *cmTx) {
	o.invariants(m, tx.pre, tx.post, tx.label)
	if !tx.ok {
		return
	}
	notOpenPay := func(lid mtypes.LeaseID, why string) {
		aid := dtypes.EscrowAccountForDeployment(lid.DeploymentID())
		pid := mtypes.EscrowPaymentForLease(lid)
		old, had := tx.pre.payment(aid, pid)
		if had && old.State == etypes.PaymentOpen {
			if acc, ok := tx.pre.account(aid); ok && (acc.SettledAt == tx.height || old.Balance.Amount.IsZero()) {
				o.zeroClose = true
				m.label("close:zero-elapsed-or-zero-balance")
			}
		}
		if p, ok := tx.post.payment(aid, pid); ok && p.State == etypes.PaymentOpen {
			m.fatalf("c03-close-lease-payment-open", "%s succeeded (%s) but payment %s is still open (pre: %+v, post: %+v)", tx.label, why, cmPayKey(p), old, p)
		}
	}
	notOpenAcc := func(aid etypes.AccountID, why string) {
		if old, ok := tx.pre.account(aid); ok && old.State == etypes.AccountOpen && old.SettledAt == tx.height {
			o.zeroClose = true
			m.label("close:zero-elapsed-or-zero-balance")
		}
		if a, ok := tx.post.account(aid); ok && a.State == etypes.AccountOpen {
			m.fatalf("c03-close-account-open", "%s succeeded (%s) but escrow account %s is still open: %+v", tx.label, why, cmAccKey(aid), a)
		}
	}
	switch msg := tx.msg.(type) {
	case *mtypes.MsgCloseLease:
		notOpenPay(msg.LeaseID, "tenant closed the lease")
	case *mtypes.MsgCloseBid:
		if b, ok := tx.pre.bid(msg.BidID); ok {
			if b.State == mtypes.BidActive {
				notOpenPay(mtypes.LeaseID(msg.BidID), "provider closed its matched bid")
			}
			if b.State == mtypes.BidOpen || b.State == mtypes.BidActive {
				notOpenAcc(mtypes.EscrowAccountForBid(msg.BidID), "provider closed its bid")
			}
		}
	case *dtypes.MsgCloseDeployment:
		aid := dtypes.EscrowAccountForDeployment(msg.ID)
		notOpenAcc(aid, "tenant closed the deployment")
		for _, p := range tx.post.payments {
			if p.AccountID == aid && p.State == etypes.PaymentOpen {
				m.fatalf("c03-close-deployment-payment-open", "%s succeeded but payment %s of the closed deployment is still open: %+v", tx.label, cmPayKey(p), p)
			}
		}
	case *mtypes.MsgCreateLease:
		// lost bids get their deposits back
		for _, b := range tx.post.bids {
			if b.State == mtypes.BidLost {
				if old, ok := tx.pre.bid(b.BidID); ok && old.State == mtypes.BidOpen {
					notOpenAcc(mtypes.EscrowAccountForBid(b.BidID), "bid lost")
				}
			}
		}
	}
}

func (o *cmC03) nontrivial(m *chainMachine) bool { return o.zeroClose }

var cmCloseProfile = cmProfile{weights: map[string]int{
	"deployCreate": 3, "marketRound": 5, "advance": 3, "provider": 1, "audit": 1,
	"leaseClose": 4, "bidClose": 3, "deployClose": 3, "leaseWithdraw": 4, "groupStart": 2, "groupPause": 2, "groupClose": 2,
	"cert": 0, "wrongSigner": 1, "deployDeposit": 2, "withdrawThenClose": 4, "exhaustExactly": 3,
}}

func TestVerif_C03(t *testing.T) {
	cmRun(t, "C03", c03Rule, func() cmOracle { return &cmC03{} }, cmCloseProfile, false)
}

// ------------------------------------------------------------------ C05

type cmC05 struct {
	cmBaseOracle
	leaseEnded bool
}

const c05Rule = "chain-machine history in which at least one lease stopped being active (closed by tenant, provider, group close or overdraft); labels record same-block create+close"

func (o *cmC05) agree(m *chainMachine, post *cmSnap, what string) {
	for _, l := range post.leases {
		p, ok := post.payment(dtypes.EscrowAccountForDeployment(l.LeaseID.DeploymentID()), mtypes.EscrowPaymentForLease(l.LeaseID))
		open := ok && p.State == etypes.PaymentOpen
		if (l.State == mtypes.LeaseActive) != open {
			m.fatalf("c05-lease-payment", "after %s: lease %s is %s but its payment stream is %s", what, m.bidName(mtypes.BidID(l.LeaseID)), l.State, fmtPay(p, ok))
		}
	}
	for _, p := range post.payments {
		if p.State != etypes.PaymentOpen || p.AccountID.Scope != dtypes.EscrowScope {
			continue
		}
		if l, ok := post.leaseOfPayment(p.AccountID, p.PaymentID); !ok || l.State != mtypes.LeaseActive {
			m.fatalf("c05-payment-without-lease", "after %s: payment %s is open but there is no active lease for it", what, cmPayKey(p))
		}
	}
	for _, b := range post.bids {
		a, ok := post.account(mtypes.EscrowAccountForBid(b.BidID))
		open := ok && a.State == etypes.AccountOpen
		live := b.State == mtypes.BidOpen || b.State == mtypes.BidActive
		if live != open {
			m.fatalf("c05-bid-deposit", "after %s: bid %s is %s but its deposit account is %s", what, m.bidName(b.BidID), b.State, fmtAcc(a, ok))
		}
		// "a provider's bid deposit is returned exactly when the bid or the deployment ends"
		if d, found := post.deployment(b.BidID.DeploymentID()); found && d.State != dtypes.DeploymentActive && open {
			m.fatalf("c05-deposit-held-after-deployment-ended", "after %s: deployment %s/%d is %s but the deposit of bid %s (%s) is still held in escrow", what, m.byAddr[d.DeploymentID.Owner].name, d.DeploymentID.DSeq, d.State, m.bidName(b.BidID), b.State)
		}
	}
	for _, d := range post.deployments {
		a, ok := post.account(dtypes.EscrowAccountForDeployment(d.DeploymentID))
		open := ok && a.State == etypes.AccountOpen
		if (d.State == dtypes.DeploymentActive) != open {
			m.fatalf("c05-deployment-account", "after %s: deployment %s/%d is %s but its escrow account is %s", what, m.byAddr[d.DeploymentID.Owner].name, d.DeploymentID.DSeq, d.State, fmtAcc(a, ok))
		}
		// "a tenant's unspent deposit is returned exactly when the deployment ends": once the
		// deployment has ended nothing of the tenant's may remain booked on its account
		if ok && d.State != dtypes.DeploymentActive && !a.Balance.Amount.IsZero() {
			m.fatalf("c05-deposit-held-after-deployment-ended", "after %s: deployment %s/%d is %s but its escrow account (%s) still holds %s of the tenant's money", what, m.byAddr[d.DeploymentID.Owner].name, d.DeploymentID.DSeq, d.State, a.State, a.Balance)
		}
	}
	for _, a := range post.accounts {
		if a.State != etypes.AccountOpen {
			continue
		}
		switch a.ID.Scope {
		case dtypes.EscrowScope:
			if d, found := post.deploymentOfAccount(a.ID); !found || d.State != dtypes.DeploymentActive {
				m.fatalf("c05-account-without-deployment", "after %s: escrow account %s is open without an active deployment", what, cmAccKey(a.ID))
			}
		case "bid":
			found := false
			for _, b := range post.bids {
				if mtypes.EscrowAccountForBid(b.BidID) == a.ID && (b.State == mtypes.BidOpen || b.State == mtypes.BidActive) {
					found = true
				}
			}
			if !found {
				m.fatalf("c05-account-without-bid", "after %s: bid deposit account %s is open without an open/matched bid", what, cmAccKey(a.ID))
			}
		}
	}
}

func fmtPay(p etypes.Payment, ok bool) string {
	if !ok {
		return "missing"
	}
	return fmt.Sprintf("%s (balance %s, withdrawn %s)", p.State, p.Balance, p.Withdrawn)
}

func fmtAcc(a etypes.Account, ok bool) string {
	if !ok {
		return "missing"
	}
	return fmt.Sprintf("%s (balance %s)", a.State, a.Balance)
}

func (o *cmC05) afterAdvance(m *chainMachine, pre, post *cmSnap) {
	o.agree(m, post, "advancing blocks")
}

func (o *cmC05) afterTx(m *chainMachine, tx *cmTx) {
	o.agree(m, tx.post, tx.label)
	for _, l := range tx.post.leases {
		old, ok := tx.pre.lease(l.LeaseID)
		if ((ok && old.State == mtypes.LeaseActive) || !ok) && l.State != mtypes.LeaseActive {
			o.leaseEnded = true
			m.label("lease-ended:" + l.State.String())
		}
		if ok && old.State == mtypes.LeaseActive && l.State != mtypes.LeaseActive && old.CreatedAt == tx.height {
			m.label("lease-created-and-closed-same-block")
		}
	}
	// money consequence, per record: a bid that stops being open/matched returns its whole deposit
	refund := map[string]sdk.Int{}
	for _, b := range tx.post.bids {
		old, ok := tx.pre.bid(b.BidID)
		if !ok || !(old.State == mtypes.BidOpen || old.State == mtypes.BidActive) || b.State == mtypes.BidOpen || b.State == mtypes.BidActive {
			continue
		}
		if a, ok := tx.pre.account(mtypes.EscrowAccountForBid(b.BidID)); ok {
			if _, ok := refund[b.BidID.Provider]; !ok {
				refund[b.BidID.Provider] = sdk.ZeroInt()
			}
			refund[b.BidID.Provider] = refund[b.BidID.Provider].Add(a.Balance.Amount)
		}
	}
	for prov, amt := range refund {
		got := tx.post.bank[prov].Sub(tx.pre.bank[prov])
		if got.LT(amt) {
			m.fatalf("c05-bid-deposit-not-returned", "%s ended bids of %s holding %s in deposits but its bank balance rose only by %s", tx.label, m.byAddr[prov].name, amt, got)
		}
	}
	// a deployment closed by its tenant (not by overdraft) returns the unspent deposit
	if msg, ok := tx.msg.(*dtypes.MsgCloseDeployment); ok && tx.ok {
		aid := dtypes.EscrowAccountForDeployment(msg.ID)
		pa, ok1 := tx.pre.account(aid)
		na, ok2 := tx.post.account(aid)
		if ok1 && ok2 && na.State == etypes.AccountClosed {
			settled := na.Transferred.Amount.Sub(pa.Transferred.Amount)
			want := pa.Balance.Amount.Sub(settled)
			got := tx.post.bank[msg.ID.Owner].Sub(tx.pre.bank[msg.ID.Owner])
			if got.LT(want) {
				m.fatalf("c05-deployment-deposit-not-returned", "%s: unspent deposit %s but tenant's bank balance rose only by %s", tx.label, want, got)
			}
		}
	}
}

func (o *cmC05) nontrivial(m *chainMachine) bool { return o.leaseEnded }

func TestVerif_C05(t *testing.T) {
	cmRun(t, "C05", c05Rule, func() cmOracle { return &cmC05{} }, cmCloseProfile, false)
}
