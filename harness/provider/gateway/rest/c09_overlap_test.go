package rest

// C09, overlapping handshakes: the verdict on a client certificate must not depend on what
// other handshakes the same TLS configuration is verifying at the same time. The harness owns
// the schedule: every chain lookup blocks until released, so verifications overlap exactly
// where the schedule says.

import (
	"context"
	"fmt"
	"math/big"
	"strings"
	"testing"
	"time"

	"pgregory.net/rapid"

	ctypes "github.com/ovrclk/akash/x/cert/types"

	gwutils "github.com/ovrclk/akash/provider/gateway/utils"
)

const c09OverlapRule = "schedule in which >=2 certificate verifications are in flight at the same time on one TLS configuration (chain lookups gated), at least one of them for a forged / revoked / unknown certificate"

const c09Wait = 20 * time.Second

type c09Call struct {
	class  string
	der    [][]byte
	expect bool // accept?
	done   chan error
	gate   chan struct{} // non-nil while the call waits in its chain lookup
	ended  bool
	verr   error
}

func TestVerif_C09_Overlap(t *testing.T) {
	vsInit("C09", c09OverlapRule)
	defer vsFlush()
	rapid.Check(t, func(t *rapid.T) {
		chain := c09NewChain()
		now := time.Now()
		day := 24 * time.Hour
		mk := func(o int, serial int64) c09Spec {
			return c09Spec{cn: c09Tenants[o].String(), serial: big.NewInt(serial), notBefore: now.Add(-30 * day), notAfter: now.Add(300 * day), clientAuth: true}
		}
		// on chain: tenant 0 and tenant 1 each have a valid certificate, tenant 2 has a revoked one
		g0, g1, r2 := c09Make(mk(0, 11)), c09Make(mk(1, 12)), c09Make(mk(2, 13))
		for i, c := range []*c09Cert{g0, g1, r2} {
			if err := chain.k.CreateCertificate(chain.ctx, c09Tenants[i], c.pem, c.pub); err != nil {
				t.Fatalf("register: %v", err)
			}
		}
		if err := chain.k.RevokeCertificate(chain.ctx, ctypes.CertID{Owner: c09Tenants[2], Serial: *big.NewInt(13)}); err != nil {
			t.Fatalf("revoke: %v", err)
		}
		f0, f1 := c09Make(mk(0, 11)), c09Make(mk(1, 12)) // self-made copies of name + serial
		u0 := c09Make(mk(0, 99))                         // never registered
		palette := map[string]*c09Call{
			"genuine0": {class: "genuine0", der: [][]byte{g0.der}, expect: true},
			"genuine1": {class: "genuine1", der: [][]byte{g1.der}, expect: true},
			"forged0":  {class: "forged0", der: [][]byte{f0.der}},
			"forged1":  {class: "forged1", der: [][]byte{f1.der}},
			"revoked2": {class: "revoked2", der: [][]byte{r2.der}},
			"unknown0": {class: "unknown0", der: [][]byte{u0.der}},
		}
		names := []string{"genuine0", "genuine0", "genuine1", "forged0", "forged0", "forged1", "revoked2", "unknown0"}

		chain.arrivals = make(chan chan struct{}, 16)
		cfg, err := gwutils.NewServerTLSConfig(context.Background(), nil, chain)
		if err != nil {
			t.Fatalf("NewServerTLSConfig: %v", err)
		}
		var sched []string
		var calls []*c09Call
		overlapped, hostile := false, false
		inFlight := func() []int {
			var out []int
			for i, c := range calls {
				if c.gate != nil {
					out = append(out, i)
				}
			}
			return out
		}
		// settle waits until call i either reaches its (next) chain lookup or ends
		settle := func(i int) {
			c := calls[i]
			select {
			case g := <-chain.arrivals:
				c.gate = g
			case c.verr = <-c.done:
				c.ended = true
			case <-time.After(c09Wait):
				t.Fatalf("VERIF-INCONCLUSIVE: verification #%d neither reached the chain lookup nor returned within %v", i, c09Wait)
			}
		}
		n := rapid.IntRange(2, 4).Draw(t, "calls")
		steps := 0
		for (len(calls) < n || len(inFlight()) > 0) && steps < 24 {
			steps++
			fl := inFlight()
			start := len(calls) < n && (len(fl) == 0 || rapid.IntRange(0, 2).Draw(t, "startAnother") > 0)
			if start {
				proto := palette[rapid.SampledFrom(names).Draw(t, "class")]
				c := &c09Call{class: proto.class, der: proto.der, expect: proto.expect, done: make(chan error, 1)}
				calls = append(calls, c)
				sched = append(sched, fmt.Sprintf("start#%d(%s)", len(calls)-1, c.class))
				go func() { c.done <- cfg.VerifyPeerCertificate(c.der, nil) }()
				settle(len(calls) - 1)
				if len(inFlight()) >= 2 {
					overlapped = true
				}
				continue
			}
			i := fl[rapid.IntRange(0, len(fl)-1).Draw(t, "release")]
			sched = append(sched, fmt.Sprintf("lookup-returns#%d", i))
			g := calls[i].gate
			calls[i].gate = nil
			close(g)
			settle(i)
		}
		for i, c := range calls {
			if !c.ended {
				t.Fatalf("VERIF-INCONCLUSIVE: verification #%d still running at the end of the schedule %v", i, sched)
			}
			if !c.expect {
				hostile = true
			}
		}
		vsCase("overlap|"+strings.Join(sched, ";"), overlapped && hostile, "overlap")
		for i, c := range calls {
			if c.expect && c.verr != nil {
				t.Fatalf("C09 VIOLATION key=c09-genuine-rejected: verification #%d of the tenant's own valid certificate (%s) failed with %v while other handshakes were in flight; schedule=%v", i, c.class, c.verr, sched)
			}
			if !c.expect && c.verr == nil {
				t.Fatalf("C09 VIOLATION key=c09-%s-accepted-overlapped: verification #%d of a %s certificate SUCCEEDED while other handshakes were in flight on the same TLS configuration; schedule=%v", strings.TrimRight(c.class, "012"), i, c.class, sched)
			}
		}
	})
}
