package keeper_test

// Replay tier for C17: the shrunk findings as plain tests.

import (
	"math/big"
	"testing"

	sdk "github.com/cosmos/cosmos-sdk/types"

	"github.com/ovrclk/akash/x/cert/types"
)

func TestVerif_C17_Replay(t *testing.T) {
	c17Init()
	ctx, k := c17Setup()
	find := func(owner int, serial string) c17Cert {
		for _, c := range c17Pool[owner] {
			if c.serial.String() == serial {
				return c
			}
		}
		t.Fatalf("no pooled certificate %d/%s", owner, serial)
		return c17Cert{}
	}
	for _, s := range []string{"0", "1", "256", "65536"} {
		c := find(0, s)
		if err := k.CreateCertificate(ctx, c17Owners[0], c.cert, c.pub); err != nil {
			t.Fatalf("create %s: %v", s, err)
		}
	}
	// D6: serial 0 must not make listings panic, and it must be listed with serial "0"
	func() {
		defer func() {
			if r := recover(); r != nil {
				t.Fatalf("C17 VIOLATION key=c17-panic: listing panicked with a serial-0 certificate registered: %v", r)
			}
		}()
		n, zero := 0, 0
		k.WithCertificates(ctx, func(c types.CertificateResponse) bool {
			n++
			if c.Serial == "0" {
				zero++
			}
			return false
		})
		if n != 4 || zero != 1 {
			t.Fatalf("C17 VIOLATION key=c17-listing-incomplete: WithCertificates returned %d entries, %d with serial 0", n, zero)
		}
		k.WithOwner(ctx, c17Owners[0], func(types.CertificateResponse) bool { return false })
		k.WithOwnerState(ctx, c17Owners[0], types.CertificateValid, func(types.CertificateResponse) bool { return false })
		k.WithCertificatesState(ctx, types.CertificateValid, func(types.CertificateResponse) bool { return false })
		res, err := k.Querier().Certificates(sdk.WrapSDKContext(ctx), &types.QueryCertificatesRequest{})
		if err != nil || len(res.Certificates) != 4 {
			t.Fatalf("C17 VIOLATION key=c17-query-error: unfiltered listing: %v (%d entries)", err, len(res.Certificates))
		}
	}()
	// seeded C17: an owner+serial lookup returns exactly that certificate, also for prefix-related serials
	for _, s := range []string{"0", "1", "256", "65536", "2"} {
		res, err := k.Querier().Certificates(sdk.WrapSDKContext(ctx), &types.QueryCertificatesRequest{Filter: types.CertificateFilter{Owner: c17Owners[0].String(), Serial: s}})
		if err != nil {
			t.Fatalf("C17 VIOLATION key=c17-query-error: %v", err)
		}
		want := 1
		if s == "2" {
			want = 0
		}
		if len(res.Certificates) != want || (want == 1 && res.Certificates[0].Serial != s) {
			t.Fatalf("C17 VIOLATION key=c17-listing-extra: lookup of serial %s returned %d certificates", s, len(res.Certificates))
		}
	}
	// revocation is permanent and visible to an exact lookup with a state filter (seeded C09 querier hunk)
	if err := k.RevokeCertificate(ctx, types.CertID{Owner: c17Owners[0], Serial: *big.NewInt(1)}); err != nil {
		t.Fatalf("revoke: %v", err)
	}
	res, err := k.Querier().Certificates(sdk.WrapSDKContext(ctx), &types.QueryCertificatesRequest{Filter: types.CertificateFilter{Owner: c17Owners[0].String(), Serial: "1", State: "valid"}})
	if err != nil || len(res.Certificates) != 0 {
		t.Fatalf("C17 VIOLATION key=c17-listing-extra: revoked certificate returned for state=valid (%v, %d)", err, len(res.Certificates))
	}
}
